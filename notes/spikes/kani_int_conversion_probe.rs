use crate::error::{Error, ErrorCode};
use crate::parser::tokenizer::Token;

static mut F64_RESULT: f64 = 0.0;

fn any_num<N>() -> N {
    let mut v = core::mem::MaybeUninit::<N>::uninit();
    let p = v.as_mut_ptr() as *mut u8;
    let mut i = 0;
    while i < core::mem::size_of::<N>() {
        unsafe { *p.add(i) = kani::any(); }
        i += 1;
    }
    unsafe { v.assume_init() }
}

// contract-level stand-in for lexical_core::parse: integers report InvalidDigit (=> float fallback),
// floats return the value chosen by the harness
pub fn stub_parse<N: lexical_core::FromLexical>(_bytes: &[u8]) -> lexical_core::Result<N> {
    if core::mem::size_of::<N>() == 8 && core::any::type_name::<N>() == "f64" {
        let v: f64 = unsafe { F64_RESULT };
        Ok(unsafe { core::mem::transmute_copy::<f64, N>(&v) })
    } else {
        Err(lexical_core::Error::InvalidDigit(0))
    }
}

#[kani::proof]
#[kani::unwind(10)]
#[kani::stub(lexical_core::parse, stub_parse)]
fn i32_from_f64() {
    let v: f64 = kani::any();
    kani::assume(v.is_finite());
    unsafe { F64_RESULT = v; }
    let r = i32::try_from(Token::DecimalNumericProgramData(b"1.5"));
    // spec: nearest integer if representable, else DataOutOfRange
    let lo = -2147483648.5f64; let hi = 2147483647.5f64;
    if v > lo && v < hi {
        match r {
            Ok(i) => { let d = (i as f64) - v; assert!(d >= -0.5 && d <= 0.5); }
            Err(_) => assert!(false),
        }
    } else if v < lo || v > hi {
        assert!(r == Err(Error::new(ErrorCode::DataOutOfRange)));
    }
}
