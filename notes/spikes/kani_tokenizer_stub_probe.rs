use crate::error::{Error, ErrorCode};
use crate::tree::prelude::*;

// ---- scripted token stream standing in for the tokenizer (contract-level stub) ----
const K: usize = 6;
static mut SCRIPT: [u8; K] = [0; K];
static mut LEN: usize = 0;
static mut POS: usize = 0;

static NAMES: [&[u8]; 4] = [b"A", b"B", b"D", b"*C"];

fn decode<'a>(code: u8) -> Result<Token<'a>, ErrorCode> {
    match code {
        0 => Ok(Token::HeaderMnemonicSeparator),
        1 => Ok(Token::HeaderQuerySuffix),
        2 => Ok(Token::ProgramMessageUnitSeparator),
        3 => Ok(Token::ProgramHeaderSeparator),
        4 => Ok(Token::ProgramDataSeparator),
        5 => Ok(Token::ProgramMnemonic(NAMES[0])),
        6 => Ok(Token::ProgramMnemonic(NAMES[1])),
        7 => Ok(Token::ProgramMnemonic(NAMES[2])),
        8 => Ok(Token::ProgramMnemonic(NAMES[3])),
        9 => Ok(Token::CharacterProgramData(b"X")),
        10 => Ok(Token::NonDecimalNumericProgramData(7)),
        _ => Err(ErrorCode::SyntaxError),
    }
}

fn stub_next<'a>(_t: &mut Tokenizer<'a>) -> Option<Result<Token<'a>, ErrorCode>> where 'a: 'a {
    unsafe {
        if POS >= LEN { return None; }
        let c = SCRIPT[POS];
        POS += 1;
        Some(decode(c))
    }
}

struct Dev { calls: u8, last: u8, errs: u8 }
impl Device for Dev { fn handle_error(&mut self, _e: Error) { self.errs += 1; } }

struct H(u8);
impl Command<Dev> for H {
    fn event(&self, d: &mut Dev, _c: &mut Context, _p: Parameters) -> Result<(), Error> { d.calls += 1; d.last = self.0; Ok(()) }
    fn query(&self, d: &mut Dev, _c: &mut Context, _p: Parameters, mut r: ResponseUnit) -> Result<(), Error> { d.calls += 1; d.last = self.0 | 0x80; r.data(true).finish() }
}

const TREE: Node<Dev> = Branch { name: b"", default: false, sub: &[
    Leaf { name: b"*C", default: false, handler: &H(1) },
    Branch { name: b"A", default: false, sub: &[
        Leaf { name: b"D", default: true, handler: &H(2) },
        Leaf { name: b"B", default: false, handler: &H(3) },
    ]},
    Leaf { name: b"B", default: false, handler: &H(4) },
]};

#[kani::proof]
#[kani::unwind(8)]
#[kani::stub(<crate::parser::tokenizer::Tokenizer as core::iter::Iterator>::next, stub_next)]
fn run_scripted() {
    let script: [u8; K] = kani::any();
    let len: usize = kani::any();
    kani::assume(len <= K);
    unsafe { SCRIPT = script; LEN = len; POS = 0; }
    let mut dev = Dev { calls: 0, last: 0, errs: 0 };
    let mut ctx = Context::default();
    let mut out = arrayvec::ArrayVec::<u8, 16>::new();
    let r = TREE.run(b"", &mut dev, &mut ctx, &mut out);
    assert!(r.is_ok() == (dev.errs == 0));
    assert!(dev.errs <= 1);
    kani::cover!(dev.calls == 3);
    kani::cover!(dev.last == 0x83);
}
