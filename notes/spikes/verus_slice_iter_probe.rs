use vstd::prelude::*;
use core::slice::Iter;
use vstd::std_specs::iter::IteratorSpec;
verus! {
#[verifier::prophetic]
pub open spec fn rem(it: Iter<u8>) -> Seq<u8> { it.remaining().map_values(|r: &u8| *r) }

pub assume_specification<'a, T> [<Iter<'a, T> as Clone>::clone] (it: &Iter<'a, T>) -> (r: Iter<'a, T>)
    ensures r == *it;
pub assume_specification<'a, T> [Iter::<'a, T>::as_slice] (it: &Iter<'a, T>) -> (r: &'a [T])
    ensures r@.len() == it.remaining().len(), forall|i: int| 0 <= i < r@.len() ==> r@[i] == *it.remaining()[i];

fn t(s: &[u8])
{
    let mut it = s.iter();
    assert(rem(it) =~= s@);
    let c = it.clone();
    assert(rem(c) =~= rem(it));
    let x = it.next();
    assert(s@.len() > 0 ==> rem(it) =~= s@.subrange(1, s@.len() as int));
    let sl = it.as_slice();
    assert(sl@ =~= rem(it));
}
}
fn main(){}
