use vstd::prelude::*;
verus! {

// ---- stand-in for scpi::error::{Error, ErrorCode}: only what the queue code touches ----
#[derive(PartialEq, Eq, Copy, Clone)]
pub enum ErrorCode { NoError, QueueOverflow, Other(i16) }
#[derive(PartialEq, Eq, Copy, Clone)]
pub struct Error(pub ErrorCode, pub Option<&'static [u8]>);
impl Error { pub fn new(code: ErrorCode) -> (r: Self) ensures r == Error(code, None) { Self(code, None) } }
impl From<ErrorCode> for Error {
    fn from(err: ErrorCode) -> (r: Self) ensures r == Error(err, None) { Error::new(err) }
}

// ---- trusted shim for arrayvec::ArrayVec (assumed contract of the dependency) ----
pub mod arrayvec {
    use vstd::prelude::*;
    #[verifier::external_body]
    #[verifier::reject_recursive_types(T)]
    pub struct ArrayVec<T, const CAP: usize> { p: core::marker::PhantomData<T> }
    pub struct CapacityError<T>(pub T);
    impl<T> core::fmt::Debug for CapacityError<T> { #[verifier::external_body] fn fmt(&self, f: &mut core::fmt::Formatter<'_>) -> core::fmt::Result { Ok(()) } }
    impl<T, const CAP: usize> ArrayVec<T, CAP> {
        pub uninterp spec fn view(&self) -> Seq<T>;
        #[verifier::external_body]
        pub fn try_push(&mut self, e: T) -> (r: Result<(), CapacityError<T>>)
            requires old(self)@.len() <= CAP,
            ensures
                old(self)@.len() < CAP ==> r is Ok && final(self)@ == old(self)@.push(e),
                old(self)@.len() >= CAP ==> r is Err && final(self)@ == old(self)@,
        { unimplemented!() }
        #[verifier::external_body]
        pub fn pop(&mut self) -> (r: Option<T>)
            ensures
                old(self)@.len() == 0 ==> r is None && final(self)@ == old(self)@,
                old(self)@.len() > 0 ==> r == Some(old(self)@.last()) && final(self)@ == old(self)@.drop_last(),
        { unimplemented!() }
        #[verifier::external_body]
        pub fn pop_at(&mut self, i: usize) -> (r: Option<T>)
            ensures
                i >= old(self)@.len() ==> r is None && final(self)@ == old(self)@,
                i < old(self)@.len() ==> r == Some(old(self)@[i as int]) && final(self)@ == old(self)@.remove(i as int),
        { unimplemented!() }
        #[verifier::external_body]
        pub fn len(&self) -> (r: usize) ensures r == self@.len() { unimplemented!() }
        #[verifier::external_body]
        pub fn clear(&mut self) ensures final(self)@ == Seq::<T>::empty() { unimplemented!() }
    }
}

pub trait ErrorQueue {
    fn push_back_error(&mut self, err: Error);
    fn pop_front_error(&mut self) -> Option<Error>;
    fn num_errors(&self) -> usize;
    fn clear_errors(&mut self);
}

pub open spec fn spec_push(q: Seq<Error>, cap: int, e: Error) -> Seq<Error> {
    if q.len() < cap { q.push(e) } else { q.drop_last().push(Error(ErrorCode::QueueOverflow, None)) }
}

impl<const CAP: usize> ErrorQueue for arrayvec::ArrayVec<Error, CAP> {
    fn push_back_error(&mut self, err: Error)
        ensures final(self)@ == spec_push(old(self)@, CAP as int, err)
    {
        //Try to queue an error, replace last with QueueOverflow if full
        if self.try_push(err).is_err() {
            let _ = self.pop().unwrap();
            self.try_push(ErrorCode::QueueOverflow.into()).unwrap();
        }
    }

    fn pop_front_error(&mut self) -> (r: Option<Error>)
        ensures old(self)@.len() == 0 ==> r is None && final(self)@ == old(self)@,
                old(self)@.len() > 0 ==> r == Some(old(self)@[0]) && final(self)@ == old(self)@.skip(1)
    {
        self.pop_at(0)
    }

    fn num_errors(&self) -> (r: usize) ensures r == self@.len() {
        self.len()
    }

    fn clear_errors(&mut self) ensures final(self)@.len() == 0 {
        self.clear()
    }
}
}
fn main(){}
