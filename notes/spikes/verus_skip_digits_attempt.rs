use vstd::prelude::*;
use core::slice::Iter;
use vstd::std_specs::iter::IteratorSpec;
verus! {
#[verifier::prophetic]
pub open spec fn rem(it: Iter<u8>) -> Seq<u8> { it.remaining().map_values(|r: &u8| *r) }

pub assume_specification<'a, T> [<Iter<'a, T> as Clone>::clone] (it: &Iter<'a, T>) -> (r: Iter<'a, T>)
    ensures r == *it;
pub assume_specification[ u8::is_ascii_digit ](c: &u8) -> (r: bool)
    ensures r == (48 <= *c <= 57);

pub open spec fn is_dig(c: u8) -> bool { 48 <= c <= 57 }
pub open spec fn digit_prefix(s: Seq<u8>) -> nat
    decreases s.len()
{
    if s.len() > 0 && is_dig(s[0]) { 1 + digit_prefix(s.skip(1)) } else { 0 }
}

pub proof fn lemma_prefix(s: Seq<u8>, k: nat)
    requires k <= s.len(), forall|i: int| 0 <= i < k ==> is_dig(s[i]), k == s.len() || !is_dig(s[k as int]),
    ensures digit_prefix(s) == k,
    decreases k,
{
    if k > 0 {
        let t = s.skip(1);
        assert(forall|i: int| 0 <= i < k - 1 ==> t[i] == s[i + 1]);
        lemma_prefix(t, (k - 1) as nat);
    }
}

#[verifier::prophetic]
pub open spec fn consumed(old_it: Iter<u8>, it: Iter<u8>) -> int { rem(old_it).len() - rem(it).len() }

pub(crate) fn skip_digits(iter: &mut Iter<u8>) -> (any: bool)
    ensures
        rem(*final(iter)) =~= rem(*old(iter)).skip(digit_prefix(rem(*old(iter))) as int),
        any == (digit_prefix(rem(*old(iter))) > 0),
{
    let mut any = false;
    while let Some(digit) = iter.clone().next()
        invariant
            0 <= consumed(*old(iter), *iter) <= rem(*old(iter)).len(),
            rem(*iter) =~= rem(*old(iter)).skip(consumed(*old(iter), *iter)),
            forall|i: int| 0 <= i < consumed(*old(iter), *iter) ==> is_dig(rem(*old(iter))[i]),
            any == (consumed(*old(iter), *iter) > 0),
        ensures
            0 <= consumed(*old(iter), *iter) <= rem(*old(iter)).len(),
            rem(*iter) =~= rem(*old(iter)).skip(consumed(*old(iter), *iter)),
            forall|i: int| 0 <= i < consumed(*old(iter), *iter) ==> is_dig(rem(*old(iter))[i]),
            any == (consumed(*old(iter), *iter) > 0),
            consumed(*old(iter), *iter) == rem(*old(iter)).len() || !is_dig(rem(*old(iter))[consumed(*old(iter), *iter)]),
        decreases iter.decrease(),
    {
        proof {
            assert(iter.remaining().len() > 0);
            assert(*digit == rem(*iter)[0]);
            assert(rem(*iter)[0] == rem(*old(iter))[consumed(*old(iter), *iter)]);
        }
        let ghost before = *iter;
        if !digit.is_ascii_digit() {
            break;
        }
        any = true;
        iter.next().unwrap();
        proof {
            assert(iter.remaining() == before.remaining().skip(1));
            assert(rem(*iter) =~= rem(before).skip(1));
            assert(rem(before).skip(1) =~= rem(*old(iter)).skip(consumed(*old(iter), before) + 1));
        }
    }
    proof { lemma_prefix(rem(*old(iter)), consumed(*old(iter), *iter) as nat); }
    any
}
}
fn main(){}
