//! cfg(kani)-only child module of `scpi::parser::response` (appended to the SCRATCH copy):
//! `ResponseUnit`'s fields are private to that module, so a harness formatter needs this
//! constructor.  It mirrors what the crate's own formatters do in `response_unit()`.
use super::{Formatter, ResponseUnit};
use crate::error::Result;

pub fn unit<'a>(fmt: &'a mut dyn Formatter) -> ResponseUnit<'a> {
    ResponseUnit { fmt, result: Ok(()), has_header: false, has_data: false }
}
pub fn state(u: &ResponseUnit) -> (Result<()>, bool, bool) {
    (u.result, u.has_header, u.has_data)
}
