//! Helpers shared by the contract harnesses (symbolic slices, playback-aware stubs).
#![allow(dead_code)]

/// A symbolic prefix of a symbolic array: every byte string of length 0..=N.
pub fn any_prefix<const N: usize>(buf: &[u8; N]) -> &[u8] {
    let n: usize = kani::any();
    kani::assume(n <= N);
    &buf[..n]
}

/// A symbolic non-empty prefix.
pub fn any_prefix1<const N: usize>(buf: &[u8; N]) -> &[u8] {
    let n: usize = kani::any();
    kani::assume(n >= 1 && n <= N);
    &buf[..n]
}

/// Assumed contract of `core::slice::<impl [u8]>::is_ascii` (true iff every byte is < 0x80),
/// used as a stub where the real word-at-a-time implementation over symbolic-length slices
/// dominates the solver time.  `vk::is_ascii_contract` checks it against the real function.
pub fn stub_is_ascii(s: &[u8]) -> bool {
    let mut i = 0;
    while i < s.len() {
        if s[i] >= 0x80 {
            return false;
        }
        i += 1;
    }
    true
}

#[kani::proof]
#[kani::unwind(12)]
pub fn is_ascii_contract() {
    let p: [u8; 9] = kani::any();
    macro_rules! case { ($($n:expr),*) => { $( assert!(p[..$n].is_ascii() == stub_is_ascii(&p[..$n]), "core/<[u8]>::is_ascii/true-iff-every-byte-below-0x80"); )* }; }
    case!(0, 1, 7, 8, 9);
}
