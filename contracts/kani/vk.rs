//! Helpers shared by the contract harnesses (symbolic slices, playback-aware stubs).
#![allow(dead_code)]

/// A symbolic prefix of a symbolic array: every byte string of length 0..=N.
pub fn any_prefix<const N: usize>(buf: &[u8; N]) -> &[u8] {
    let n: usize = kani::any();
    kani::assume(n <= N);
    &buf[..n]
}

/// A symbolic non-empty prefix.
pub fn any_prefix1<const N: usize>(buf: &[u8; N]) -> &[u8] {
    let n: usize = kani::any();
    kani::assume(n >= 1 && n <= N);
    &buf[..n]
}
