//! C16 — status byte and IEEE 488.2 common commands follow the 488.2 status model.
//! Every handler is verified from an arbitrary symbolic device state (all register values);
//! parameters come from the lexer's contract (scripted token source).  Loop-free apart from
//! decimal formatting of one u8/i16 (real lexical_core::write, checked against an independent
//! encoder).
use super::kdev::*;
use super::kscript::*;
use super::spec::*;
use crate::ieee488::common::*;
use crate::ieee488::prelude::*;
use crate::scpi1999::prelude::*;
use scpi::error::{Error, ErrorCode, Result};
use scpi::tree::prelude::*;

fn expect_dec(out: &[u8], v: i128) -> bool {
    let mut b = [0u8; 40];
    let n = spec_dec32(v as i32, &mut b);
    bytes_eq(out, &b[..n])
}

fn dev_stb(d: &KDev, mav: bool) -> u8 {
    spec_stb(d.q.len > 0, spec_summary(d.ques.condition, d.ques.enable), spec_summary(d.oper.condition, d.oper.enable), mav, d.esr, d.ese, d.sre)
}

fn small_dev() -> KDev {
    any_dev_with(any_queue(any_small_error))
}

#[kani::proof]
#[kani::unwind(18)]
pub fn scpi_stb_contract() {
    let d = small_dev();
    kani::cover!(dev_stb(&d, false) == 0xEC);
    kani::cover!(dev_stb(&d, false) == 0);
    assert!(d.scpi_stb() == dev_stb(&d, false), "C16/ScpiDevice::scpi_stb/equals-488.2-status-byte-with-MSS");
    assert!(IEEE4882::stb(&d) == dev_stb(&d, false), "C16/IEEE4882::stb/wired-to-scpi_stb");
}

/// The trait's default `stb` (a plain 488.2 device without SCPI registers).
struct Plain {
    esr: u8,
    ese: u8,
    sre: u8,
}
impl IEEE4882 for Plain {
    fn sre(&self) -> u8 {
        self.sre
    }
    fn set_sre(&mut self, v: u8) {
        self.sre = v
    }
    fn esr(&self) -> u8 {
        self.esr
    }
    fn set_esr(&mut self, v: u8) {
        self.esr = v
    }
    fn ese(&self) -> u8 {
        self.ese
    }
    fn set_ese(&mut self, v: u8) {
        self.ese = v
    }
    fn tst(&mut self) -> Result<()> {
        Ok(())
    }
    fn rst(&mut self) -> Result<()> {
        Ok(())
    }
    fn cls(&mut self) -> Result<()> {
        Ok(())
    }
    fn opc(&mut self) -> Result<()> {
        Ok(())
    }
}
#[kani::proof]
#[kani::unwind(18)]
pub fn ieee4882_default_stb() {
    let p = Plain { esr: kani::any(), ese: kani::any(), sre: kani::any() };
    assert!(p.stb() == spec_stb(false, false, false, false, p.esr, p.ese, p.sre), "C16/IEEE4882::stb/default-composes-ESB-then-MSS");
}

macro_rules! query {
    ($cmd:expr, $dev:expr, $ctx:expr, $out:expr) => {{
        let mut toks = Tokenizer::new_params(b"").peekable();
        let unit = $out.response_unit().unwrap();
        Command::<KDev>::query(&$cmd, &mut $dev, &mut $ctx, Parameters::with(&mut toks), unit)
    }};
}
macro_rules! event {
    ($cmd:expr, $dev:expr, $ctx:expr) => {{
        let mut toks = Tokenizer::new_params(b"").peekable();
        Command::<KDev>::event(&$cmd, &mut $dev, &mut $ctx, Parameters::with(&mut toks))
    }};
}

#[kani::proof]
#[kani::unwind(18)]
#[kani::stub(<scpi::parser::tokenizer::Tokenizer as core::iter::Iterator>::next, stub_next)]
pub fn stb_query() {
    set_script(&[]);
    let d0 = small_dev();
    let mut d = d0;
    let mut ctx = Context::default();
    ctx.mav = kani::any();
    let mav = ctx.mav;
    let mut out = alloc::vec::Vec::<u8>::new();
    kani::cover!(mav && d0.sre == 0x10 && dev_stb(&d0, false) == 0);
    let r = query!(StbCommand, d, ctx, out);
    assert!(r.is_ok(), "C16/StbCommand::query/ok");
    assert!(d == d0, "C16/StbCommand::query/reading-changes-nothing");
    assert!(ctx.mav == mav, "C16/StbCommand::query/context-mav-unchanged");
    let v = spec_parse_dec5(&out);
    assert!(v.is_some(), "C16/StbCommand::query/response-is-NR1");
    let v = v.unwrap() as u8;
    let e = dev_stb(&d0, mav);
    assert!(v & 0xBF == e & 0xBF, "C16/StbCommand::query/bits-2-3-4-5-7-per-status-model");
    assert!(v & 0x40 == e & 0x40, "C16/StbCommand::query/bit6-MSS-iff-a-reported-bit-is-enabled-by-SRE");
    assert!(expect_dec(&out, e as i128), "C16/StbCommand::query/canonical-decimal");
}

#[kani::proof]
#[kani::unwind(18)]
#[kani::stub(<scpi::parser::tokenizer::Tokenizer as core::iter::Iterator>::next, stub_next)]
pub fn ese_sre_write() {
    let d0 = small_dev();
    let v: u64 = kani::any();
    let mav: bool = kani::any();
    kani::cover!(v == 255);
    kani::cover!(v == 256);
    // the four (command, parameter present?) cases run one after the other so that the token
    // kind is a constant whenever a handler runs
    macro_rules! case {
        ($cmd:expr, $reg:ident, $present:expr) => {{
            let mut d = d0;
            let mut ctx = Context::default();
            ctx.mav = mav;
            if $present {
                set_script(&[Some(Ok(Token::NonDecimalNumericProgramData(v)))]);
            } else {
                set_script(&[]);
            }
            let r = event!($cmd, d, ctx);
            let mut exp = d0;
            if $present && v <= 255 {
                exp.$reg = v as u8;
                assert!(r.is_ok(), "C16/EseCommand|SreCommand::event/accepts-0-to-255");
            } else if $present {
                assert!(r == Err(ErrorCode::DataOutOfRange.into()), "C16/EseCommand|SreCommand::event/above-255-is-222");
            } else {
                assert!(r == Err(ErrorCode::MissingParameter.into()), "C16/EseCommand|SreCommand::event/missing-is-109");
            }
            assert!(d == exp, "C16/EseCommand|SreCommand::event/stores-value-in-its-register-only");
            assert!(ctx.mav == mav, "C16/EseCommand|SreCommand::event/context-mav-unchanged");
        }};
    }
    case!(EseCommand, ese, true);
    case!(EseCommand, ese, false);
    case!(SreCommand, sre, true);
    case!(SreCommand, sre, false);
}

#[kani::proof]
#[kani::unwind(18)]
#[kani::stub(<scpi::parser::tokenizer::Tokenizer as core::iter::Iterator>::next, stub_next)]
pub fn ese_sre_esr_read() {
    set_script(&[]);
    let d0 = small_dev();
    let mut ctx = Context::default();
    let which: u8 = kani::any();
    kani::assume(which < 3);
    let mut d = d0;
    let mut out = alloc::vec::Vec::<u8>::new();
    match which {
        0 => {
            let r = query!(EseCommand, d, ctx, out);
            assert!(r.is_ok() && expect_dec(&out, d0.ese as i128), "C16/EseCommand::query/reads-back-what-was-written");
            assert!(d == d0, "C16/EseCommand::query/changes-nothing");
        }
        1 => {
            let r = query!(SreCommand, d, ctx, out);
            assert!(r.is_ok() && expect_dec(&out, d0.sre as i128), "C16/SreCommand::query/reads-back-what-was-written");
            assert!(d == d0, "C16/SreCommand::query/changes-nothing");
        }
        _ => {
            let r = query!(EsrCommand, d, ctx, out);
            assert!(r.is_ok() && expect_dec(&out, d0.esr as i128), "C16/EsrCommand::query/returns-accumulated-bits");
            let mut exp = d0;
            exp.esr = 0;
            assert!(d == exp, "C16/EsrCommand::query/clears-ESR-and-nothing-else");
        }
    }
}

#[kani::proof]
#[kani::unwind(18)]
#[kani::stub(<scpi::parser::tokenizer::Tokenizer as core::iter::Iterator>::next, stub_next)]
pub fn cls_event() {
    set_script(&[]);
    let d0 = small_dev();
    let mut d = d0;
    let mut ctx = Context::default();
    ctx.mav = kani::any();
    let mav = ctx.mav;
    kani::cover!(d0.q.len == 3 && d0.esr == 0xFF);
    let r = event!(ClsCommand, d, ctx);
    assert!(r.is_ok(), "C16/ClsCommand::event/ok");
    assert!(d.esr == 0, "C16/ClsCommand::event/clears-event-status-register");
    assert!(d.oper.event == 0 && d.ques.event == 0, "C16/ClsCommand::event/clears-both-event-registers");
    assert!(d.q.len == 0, "C16/ClsCommand::event/clears-error-queue");
    assert!(d.ese == d0.ese && d.sre == d0.sre && d.oper.enable == d0.oper.enable && d.ques.enable == d0.ques.enable, "C16/ClsCommand::event/no-enable-register-changes");
    assert!(d.oper.condition == d0.oper.condition && d.oper.ptr_filter == d0.oper.ptr_filter && d.oper.ntr_filter == d0.oper.ntr_filter
        && d.ques.condition == d0.ques.condition && d.ques.ptr_filter == d0.ques.ptr_filter && d.ques.ntr_filter == d0.ques.ntr_filter, "C16/ClsCommand::event/conditions-and-filters-unchanged");
    assert!(ctx.mav == mav, "C16/ClsCommand::event/context-mav-unchanged");
}

#[kani::proof]
#[kani::unwind(18)]
#[kani::stub(<scpi::parser::tokenizer::Tokenizer as core::iter::Iterator>::next, stub_next)]
pub fn opc_tst_rst_wai() {
    set_script(&[]);
    let d0 = small_dev();
    let mut ctx = Context::default();
    ctx.mav = kani::any();
    let mav = ctx.mav;
    let which: u8 = kani::any();
    kani::assume(which < 5);
    let mut d = d0;
    let mut out = alloc::vec::Vec::<u8>::new();
    match which {
        0 => {
            let r = event!(OpcCommand, d, ctx);
            assert!(r.is_ok(), "C16/OpcCommand::event/ok");
            assert!(d.esr == d0.esr | 0x01, "C16/OpcCommand::event/sets-operation-complete-bit-keeps-the-others");
            let mut q = d0.q;
            q.push(Error::new(ErrorCode::OperationComplete));
            assert!(d.q == q, "C16/OpcCommand::event/records-its-operation-complete-event");
            let mut exp = d;
            exp.esr = d0.esr;
            exp.q = d0.q;
            assert!(exp == d0, "C16/OpcCommand::event/frame");
        }
        1 => {
            let r = query!(OpcCommand, d, ctx, out);
            assert!(r.is_ok() && bytes_eq(&out, b"1"), "C16/OpcCommand::query/answers-1");
            assert!(d == d0, "C16/OpcCommand::query/changes-nothing");
        }
        2 => {
            let r = query!(TstCommand, d, ctx, out);
            assert!(r.is_ok() && expect_dec(&out, d0.tst_code as i128), "C16/TstCommand::query/answers-0-or-the-self-test-error-code");
            assert!(d == d0, "C16/TstCommand::query/no-status-register-changes");
        }
        3 => {
            let r = event!(RstCommand, d, ctx);
            let mut exp = d0;
            exp.rst_calls = 1;
            assert!(r.is_ok() && d == exp, "C16/RstCommand::event/calls-rst-once-and-alters-no-status-register");
        }
        _ => {
            let r = event!(WaiCommand, d, ctx);
            assert!(r.is_ok() && d == d0, "C16/WaiCommand::event/alters-nothing");
        }
    }
    assert!(ctx.mav == mav, "C16/common-commands/context-mav-unchanged");
}

/// Query-only and event-only commands reject the other form without touching the device.
#[kani::proof]
#[kani::unwind(18)]
#[kani::stub(<scpi::parser::tokenizer::Tokenizer as core::iter::Iterator>::next, stub_next)]
pub fn wrong_form_is_undefined_header() {
    set_script(&[]);
    let d0 = small_dev();
    let mut d = d0;
    let mut ctx = Context::default();
    let mut out = alloc::vec::Vec::<u8>::new();
    let which: u8 = kani::any();
    kani::assume(which < 6);
    let r = match which {
        0 => event!(StbCommand, d, ctx),
        1 => event!(EsrCommand, d, ctx),
        2 => event!(TstCommand, d, ctx),
        3 => query!(ClsCommand, d, ctx, out),
        4 => query!(RstCommand, d, ctx, out),
        _ => query!(WaiCommand, d, ctx, out),
    };
    assert!(r == Err(ErrorCode::UndefinedHeader.into()), "C16/common-commands/wrong-form-is-113");
    assert!(d == d0, "C16/common-commands/wrong-form-changes-nothing");
}
