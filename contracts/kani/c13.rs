//! C13 — every failed message is queued once, flagged in ESR, and read back in order.
//! Per-operation contracts on the documented wiring (symbolic registers, bounded FIFO of
//! capacity 3 as the device's queue); the history statement is the inductive invariant
//! "queue == unread failures in order /\ ESR == OR of their classes since the last *ESR?/*CLS",
//! preserved by each contract.  `Node::run => handle_error exactly once` is C05's obligation.
use super::kdev::*;
use super::kscript::*;
use super::spec::*;
use super::vk::stub_is_ascii;
use crate::ieee488::common::*;
use crate::ieee488::prelude::*;
use crate::scpi1999::prelude::*;
use crate::scpi1999::system::error::*;
use scpi::error::{Error, ErrorCode, ErrorQueue, Result};
use scpi::tree::prelude::*;

#[kani::proof]
#[kani::unwind(8)]
pub fn push_error_contract() {
    let d0 = any_dev();
    let e = any_error();
    let mut d = d0;
    kani::cover!(d0.q.len == QCAP);
    kani::cover!(e.get_code() == -113 && d0.esr == 0);
    d.push_error(e);
    assert!(d.esr == d0.esr | spec_class(e.get_code()), "C13/ScpiDevice::push_error/sets-exactly-the-class-bit");
    let mut q = d0.q;
    q.push(e);
    assert!(d.q == q, "C13/ScpiDevice::push_error/appends-exactly-this-error");
    let mut exp = d;
    exp.esr = d0.esr;
    exp.q = d0.q;
    assert!(exp == d0, "C13/ScpiDevice::push_error/frame");
    // the documented hook wiring
    let mut d2 = d0;
    d2.handle_error(e);
    let mut exp2 = d;
    exp2.hook_calls = 1;
    assert!(d2 == exp2, "C13/Device::handle_error/wired-to-push_error");
}

macro_rules! query {
    ($cmd:expr, $dev:expr, $out:expr) => {{
        let mut ctx = Context::default();
        let mut toks = Tokenizer::new_params(b"").peekable();
        let unit = $out.response_unit().unwrap();
        Command::<KDev>::query(&$cmd, &mut $dev, &mut ctx, Parameters::with(&mut toks), unit)
    }};
}

fn dev_with_len(len: usize, ext: bool) -> KDev {
    let first = if ext { Error::custom(1, b"V").extended(b"x") } else { Error::custom(1, b"V") };
    any_dev_with(KQueue { items: [first, Error::custom(2, b"W"), Error::custom(3, b"X")], len })
}

/// The queue contents are CONCRETE per case (lengths 0..=3, first item with/without extended
/// text) so that the error handed to the formatter is a constant on each path; every other
/// register of the device is symbolic.  Formatting of arbitrary errors is C09's obligation.
macro_rules! next_case {
    ($len:expr, $ext:expr, $expect:expr) => {{
        set_script(&[]);
        let d0 = dev_with_len($len, $ext);
        let mut d = d0;
        let mut out = alloc::vec::Vec::<u8>::new();
        let r = query!(SystErrNextCommand, d, out);
        assert!(r.is_ok(), "C13/SystErrNextCommand::query/ok");
        assert!(bytes_eq(&out, $expect), "C13/SystErrNextCommand::query/returns-oldest-item-as-code-message-or-no-error");
        let mut q = d0.q;
        q.pop();
        assert!(d.q.len == q.len && ($len == 0 || d.q == q), "C13/SystErrNextCommand::query/removes-exactly-the-oldest");
        let mut exp = d;
        exp.q = d0.q;
        assert!(exp == d0, "C13/SystErrNextCommand::query/frame");
    }};
}

#[kani::proof]
#[kani::unwind(20)]
#[kani::stub(<scpi::parser::tokenizer::Tokenizer as core::iter::Iterator>::next, stub_next)]
#[kani::stub(<[u8]>::is_ascii, stub_is_ascii)]
pub fn syst_err_next() {
    next_case!(0, false, b"0,\"No error\"");
    next_case!(1, false, b"1,\"V\"");
    next_case!(1, true, b"1,\"V;x\"");
    next_case!(3, false, b"1,\"V\"");
}

#[kani::proof]
#[kani::unwind(12)]
#[kani::stub(<scpi::parser::tokenizer::Tokenizer as core::iter::Iterator>::next, stub_next)]
pub fn syst_err_count() {
    set_script(&[]);
    let d0 = any_dev_with(any_queue(any_small_error));
    let mut d = d0;
    let mut out = alloc::vec::Vec::<u8>::new();
    let r = query!(SystErrCountCommand, d, out);
    let mut b = [0u8; 40];
    let n = spec_dec32(d0.q.len as i32, &mut b);
    assert!(r.is_ok() && bytes_eq(&out, &b[..n]), "C13/SystErrCountCommand::query/returns-number-of-unread-items");
    assert!(d == d0, "C13/SystErrCountCommand::query/changes-nothing");
}

macro_rules! all_case {
    ($len:expr, $ext:expr, $expect:expr) => {{
        set_script(&[]);
        let d0 = dev_with_len($len, $ext);
        let mut d = d0;
        let mut out = alloc::vec::Vec::<u8>::new();
        let r = query!(SystErrAllCommand, d, out);
        assert!(r.is_ok(), "C13/SystErrAllCommand::query/ok");
        assert!(bytes_eq(&out, $expect), "C13/SystErrAllCommand::query/returns-all-items-in-order-or-no-error");
        assert!(d.q.len == 0, "C13/SystErrAllCommand::query/empties-the-queue");
        let mut e2 = d;
        e2.q = d0.q;
        assert!(e2 == d0, "C13/SystErrAllCommand::query/frame");
    }};
}

#[kani::proof]
#[kani::unwind(40)]
#[kani::stub(<scpi::parser::tokenizer::Tokenizer as core::iter::Iterator>::next, stub_next)]
#[kani::stub(<[u8]>::is_ascii, stub_is_ascii)]
pub fn syst_err_all() {
    all_case!(0, false, b"0,\"No error\"");
    all_case!(1, true, b"1,\"V;x\"");
    all_case!(2, false, b"1,\"V\",2,\"W\"");
    all_case!(3, false, b"1,\"V\",2,\"W\",3,\"X\"");
}

/// `*ESR?` returns the accumulated bits and clears them; `*OPC` is the only successful
/// command that records an event.
#[kani::proof]
#[kani::unwind(12)]
#[kani::stub(<scpi::parser::tokenizer::Tokenizer as core::iter::Iterator>::next, stub_next)]
pub fn esr_and_opc() {
    set_script(&[]);
    let d0 = any_dev_with(any_queue(any_small_error));
    let mut d = d0;
    let mut out = alloc::vec::Vec::<u8>::new();
    let r = query!(EsrCommand, d, out);
    let mut b = [0u8; 40];
    let n = spec_dec32(d0.esr as i32, &mut b);
    assert!(r.is_ok() && bytes_eq(&out, &b[..n]), "C13/EsrCommand::query/returns-accumulated-status-bits");
    let mut exp = d0;
    exp.esr = 0;
    assert!(d == exp, "C13/EsrCommand::query/clears-them-and-nothing-else");
    let mut d = d0;
    let r = d.scpi_opc();
    let mut q = d0.q;
    q.push(Error::new(ErrorCode::OperationComplete));
    assert!(r.is_ok() && d.esr == d0.esr | 0x01 && d.q == q, "C13/ScpiDevice::scpi_opc/records-operation-complete-bit0-and-event");
}
