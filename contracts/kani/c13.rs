//! C13 — every failed message is queued once, flagged in ESR, and read back in order.
//! Per-operation contracts on the documented wiring (symbolic registers, bounded FIFO of
//! capacity 3 as the device's queue); the history statement is the inductive invariant
//! "queue == unread failures in order /\ ESR == OR of their classes since the last *ESR?/*CLS",
//! preserved by each contract.  `Node::run => handle_error exactly once` is C05's obligation.
use super::kdev::*;
use super::kscript::*;
use super::spec::*;
use crate::ieee488::common::*;
use crate::ieee488::prelude::*;
use crate::scpi1999::prelude::*;
use crate::scpi1999::system::error::*;
use scpi::error::{Error, ErrorCode, ErrorQueue, Result};
use scpi::tree::prelude::*;

#[kani::proof]
#[kani::unwind(8)]
pub fn push_error_contract() {
    let d0 = any_dev();
    let e = any_error();
    let mut d = d0;
    kani::cover!(d0.q.len == QCAP);
    kani::cover!(e.get_code() == -113 && d0.esr == 0);
    d.push_error(e);
    assert!(d.esr == d0.esr | spec_class(e.get_code()), "C13/ScpiDevice::push_error/sets-exactly-the-class-bit");
    let mut q = d0.q;
    q.push(e);
    assert!(d.q == q, "C13/ScpiDevice::push_error/appends-exactly-this-error");
    let mut exp = d;
    exp.esr = d0.esr;
    exp.q = d0.q;
    assert!(exp == d0, "C13/ScpiDevice::push_error/frame");
    // the documented hook wiring
    let mut d2 = d0;
    d2.handle_error(e);
    let mut exp2 = d;
    exp2.hook_calls = 1;
    assert!(d2 == exp2, "C13/Device::handle_error/wired-to-push_error");
}

macro_rules! query {
    ($cmd:expr, $dev:expr, $out:expr) => {{
        let mut ctx = Context::default();
        let mut toks = Tokenizer::new_params(b"").peekable();
        let unit = $out.response_unit().unwrap();
        Command::<KDev>::query(&$cmd, &mut $dev, &mut ctx, Parameters::with(&mut toks), unit)
    }};
}

#[kani::proof]
#[kani::unwind(44)]
#[kani::stub(<scpi::parser::tokenizer::Tokenizer as core::iter::Iterator>::next, stub_next)]
pub fn syst_err_next() {
    set_script(&[]);
    let d0 = any_dev_with(numbered_queue());
    let mut d = d0;
    let mut out = alloc::vec::Vec::<u8>::new();
    kani::cover!(d0.q.len == 0);
    kani::cover!(d0.q.len == 3);
    let r = query!(SystErrNextCommand, d, out);
    assert!(r.is_ok(), "C13/SystErrNextCommand::query/ok");
    let mut item = [0u8; 96];
    if d0.q.len == 0 {
        assert!(bytes_eq(&out, b"0,\"No error\""), "C13/SystErrNextCommand::query/empty-queue-answers-no-error");
        assert!(d == d0, "C13/SystErrNextCommand::query/empty-queue-unchanged");
    } else {
        let n = spec_error_item(&d0.q.items[0], &mut item);
        assert!(bytes_eq(&out, &item[..n]), "C13/SystErrNextCommand::query/returns-oldest-item-as-code-message");
        let mut q = d0.q;
        q.pop();
        assert!(d.q == q, "C13/SystErrNextCommand::query/removes-exactly-the-oldest");
        let mut exp = d;
        exp.q = d0.q;
        assert!(exp == d0, "C13/SystErrNextCommand::query/frame");
    }
}

#[kani::proof]
#[kani::unwind(8)]
#[kani::stub(<scpi::parser::tokenizer::Tokenizer as core::iter::Iterator>::next, stub_next)]
pub fn syst_err_count() {
    set_script(&[]);
    let d0 = any_dev_with(any_queue(any_small_error));
    let mut d = d0;
    let mut out = alloc::vec::Vec::<u8>::new();
    let r = query!(SystErrCountCommand, d, out);
    let mut b = [0u8; 40];
    let n = spec_dec(d0.q.len as i128, &mut b);
    assert!(r.is_ok() && bytes_eq(&out, &b[..n]), "C13/SystErrCountCommand::query/returns-number-of-unread-items");
    assert!(d == d0, "C13/SystErrCountCommand::query/changes-nothing");
}

#[kani::proof]
#[kani::unwind(44)]
#[kani::stub(<scpi::parser::tokenizer::Tokenizer as core::iter::Iterator>::next, stub_next)]
pub fn syst_err_all() {
    set_script(&[]);
    let d0 = any_dev_with(numbered_queue());
    let mut d = d0;
    let mut out = alloc::vec::Vec::<u8>::new();
    kani::cover!(d0.q.len == 3);
    let r = query!(SystErrAllCommand, d, out);
    assert!(r.is_ok(), "C13/SystErrAllCommand::query/ok");
    if d0.q.len == 0 {
        assert!(bytes_eq(&out, b"0,\"No error\""), "C13/SystErrAllCommand::query/empty-queue-answers-no-error");
        assert!(d == d0, "C13/SystErrAllCommand::query/empty-queue-unchanged");
    } else {
        let mut exp = [0u8; 64];
        let mut k = 0;
        let mut i = 0;
        while i < d0.q.len {
            if i > 0 {
                exp[k] = b',';
                k += 1;
            }
            let mut item = [0u8; 96];
            let n = spec_error_item(&d0.q.items[i], &mut item);
            let mut j = 0;
            while j < n {
                exp[k] = item[j];
                k += 1;
                j += 1;
            }
            i += 1;
        }
        assert!(bytes_eq(&out, &exp[..k]), "C13/SystErrAllCommand::query/returns-all-items-in-order");
        assert!(d.q.len == 0, "C13/SystErrAllCommand::query/empties-the-queue");
        let mut e2 = d;
        e2.q = d0.q;
        assert!(e2 == d0, "C13/SystErrAllCommand::query/frame");
    }
}

/// `*ESR?` returns the accumulated bits and clears them; `*OPC` is the only successful
/// command that records an event.
#[kani::proof]
#[kani::unwind(8)]
#[kani::stub(<scpi::parser::tokenizer::Tokenizer as core::iter::Iterator>::next, stub_next)]
pub fn esr_and_opc() {
    set_script(&[]);
    let d0 = any_dev_with(any_queue(any_small_error));
    let mut d = d0;
    let mut out = alloc::vec::Vec::<u8>::new();
    let r = query!(EsrCommand, d, out);
    let mut b = [0u8; 40];
    let n = spec_dec(d0.esr as i128, &mut b);
    assert!(r.is_ok() && bytes_eq(&out, &b[..n]), "C13/EsrCommand::query/returns-accumulated-status-bits");
    let mut exp = d0;
    exp.esr = 0;
    assert!(d == exp, "C13/EsrCommand::query/clears-them-and-nothing-else");
    let mut d = d0;
    let r = d.scpi_opc();
    let mut q = d0.q;
    q.push(Error::new(ErrorCode::OperationComplete));
    assert!(r.is_ok() && d.esr == d0.esr | 0x01 && d.q == q, "C13/ScpiDevice::scpi_opc/records-operation-complete-bit0-and-event");
}
