//! Assumed contracts of the `lexical_core` dependency, as Kani stubs (scpi crate only).
//!
//! parse::<int>(text)   : Ok(n) iff text is an NR1 literal of value n within the type;
//!                        Err(Overflow|Underflow) for an NR1 literal outside the type;
//!                        Err(InvalidDigit) for a literal with '.' or exponent (or a sign the
//!                        type does not take).   Which of these applies is chosen by the harness.
//! parse::<f64|f32>(text): Ok(v) where v is the correctly rounded value of the literal
//!                        (finite or +-inf, never NaN) — correct rounding is ASSUMED.
//! Under `cfg(verif_playback)` (native replay of a counterexample) the stubs are not applied;
//! harnesses then build the literal text that corresponds to the chosen answer.
use lexical_core::Error as LexError;

pub static mut INT_MODE: u8 = 0; // 0 InvalidDigit, 1 Ok(INT_VALUE), 2 Overflow, 3 Underflow
pub static mut INT_VALUE: i128 = 0;
pub static mut F64_VALUE: f64 = 0.0;
pub static mut F32_VALUE: f32 = 0.0;
pub static mut PARSE_CALLS: u32 = 0;

pub fn int_from_i128<N>(v: i128) -> N {
    // loop-free: one memcpy of size_of::<N>() low-order bytes (little endian)
    let mut out = core::mem::MaybeUninit::<N>::uninit();
    let src = v.to_le_bytes();
    unsafe {
        core::ptr::copy_nonoverlapping(src.as_ptr(), out.as_mut_ptr() as *mut u8, core::mem::size_of::<N>());
        out.assume_init()
    }
}

fn str_eq(a: &str, b: &str) -> bool {
    let (a, b) = (a.as_bytes(), b.as_bytes());
    if a.len() != b.len() {
        return false;
    }
    let mut i = 0;
    while i < a.len() {
        if a[i] != b[i] {
            return false;
        }
        i += 1;
    }
    true
}

pub fn stub_parse<N: lexical_core::FromLexical>(_bytes: &[u8]) -> lexical_core::Result<N> {
    unsafe {
        PARSE_CALLS += 1;
        let name = core::any::type_name::<N>();
        if str_eq(name, "f64") {
            Ok(core::mem::transmute_copy::<f64, N>(&F64_VALUE))
        } else if str_eq(name, "f32") {
            Ok(core::mem::transmute_copy::<f32, N>(&F32_VALUE))
        } else {
            match INT_MODE {
                0 => Err(LexError::InvalidDigit(0)),
                1 => Ok(int_from_i128::<N>(INT_VALUE)),
                2 => Err(LexError::Overflow(0)),
                _ => Err(LexError::Underflow(0)),
            }
        }
    }
}

/// Text of a decimal literal that makes the REAL lexical_core give the answer chosen for the
/// stub (used only when a counterexample is replayed natively).
#[cfg(verif_playback)]
pub fn literal_for(mode: u8, n: i128, v: f64, buf: &mut [u8; 400]) -> &[u8] {
    extern crate std;
    use std::io::Write;
    let mut cur = std::io::Cursor::new(&mut buf[..]);
    match mode {
        1 => write!(cur, "{}", n).unwrap(),
        2 => write!(cur, "340282366920938463463374607431768211456").unwrap(),
        3 => write!(cur, "-340282366920938463463374607431768211456").unwrap(),
        _ => {
            if v.is_infinite() {
                write!(cur, "{}1e999", if v < 0.0 { "-" } else { "" }).unwrap()
            } else {
                // shortest round-trip digits, always with exponent so that it is not NR1
                write!(cur, "{:e}", v).unwrap()
            }
        }
    }
    let n = cur.position() as usize;
    &buf[..n]
}
#[cfg(not(verif_playback))]
pub fn literal_for(_mode: u8, _n: i128, _v: f64, buf: &mut [u8; 400]) -> &[u8] {
    buf[0] = b'1';
    buf[1] = b'.';
    buf[2] = b'5';
    &buf[..3]
}

/// Float parse mode: 0 Ok(value), 1 InvalidDigit, 2 Overflow, 3 Underflow, 4 Empty.
pub static mut FLOAT_MODE: u8 = 0;

pub fn stub_parse_f<N: lexical_core::FromLexical>(_bytes: &[u8]) -> lexical_core::Result<N> {
    unsafe {
        PARSE_CALLS += 1;
        match FLOAT_MODE {
            0 => {
                let name = core::any::type_name::<N>();
                if str_eq(name, "f64") {
                    Ok(core::mem::transmute_copy::<f64, N>(&F64_VALUE))
                } else {
                    Ok(core::mem::transmute_copy::<f32, N>(&F32_VALUE))
                }
            }
            1 => Err(LexError::InvalidDigit(0)),
            2 => Err(LexError::Overflow(0)),
            3 => Err(LexError::Underflow(0)),
            _ => Err(LexError::Empty(0)),
        }
    }
}

/// Assumed contract of `lexical_core::parse_partial::<isize>` (observed behaviour of 0.8):
/// consumes an optional sign and the maximal run of decimal digits; with no digit it reports
/// `Ok((0, 0))` (e.g. `parse_partial(b"!2") == Ok((0, 0))`); the value is the decimal value,
/// `Err(Overflow)` beyond the type.
pub fn stub_parse_partial<N: lexical_core::FromLexical>(bytes: &[u8]) -> lexical_core::Result<(N, usize)> {
    let mut i = 0;
    let mut neg = false;
    if i < bytes.len() && (bytes[i] == b'+' || bytes[i] == b'-') {
        neg = bytes[i] == b'-';
        i += 1;
    }
    let start = i;
    let mut v: i128 = 0;
    while i < bytes.len() && bytes[i] >= b'0' && bytes[i] <= b'9' {
        if v < 1_000_000_000_000_000_000_000 {
            v = v * 10 + (bytes[i] - b'0') as i128;
        }
        i += 1;
    }
    if i == start {
        return Ok((int_from_i128::<N>(0), 0));
    }
    let v = if neg { -v } else { v };
    if v > isize::MAX as i128 || v < isize::MIN as i128 {
        return Err(LexError::Overflow(0));
    }
    Ok((int_from_i128::<N>(v), i))
}

// ---------------------------------------------------------------------------------------
// Lexer-side contracts (observed behaviour of lexical-core 0.8, see DESIGN 3.6):
//   parse::<usize>(text)                     : optional '+', then one or more decimal digits,
//                                              nothing else => Ok(value); otherwise Err.
//   parse_partial_with_options::<u64,RADIX>  : optional '+', then the maximal run of digits of
//                                              the radix (either case): Ok((value, length));
//                                              no digit: Ok((0,0)) without a sign, Ok((0,1)) after
//                                              a '+' followed by something, Err(Empty) at the end;
//                                              Err(Overflow) beyond 64 bits.
// ---------------------------------------------------------------------------------------
pub fn stub_parse_len<N: lexical_core::FromLexical>(bytes: &[u8]) -> lexical_core::Result<N> {
    let mut i = 0;
    if i < bytes.len() && bytes[i] == b'+' {
        i += 1;
    }
    if i >= bytes.len() {
        return Err(LexError::Empty(i));
    }
    let mut v: i128 = 0;
    while i < bytes.len() {
        let c = bytes[i];
        if !(c >= b'0' && c <= b'9') {
            return Err(LexError::InvalidDigit(i));
        }
        v = v * 10 + (c - b'0') as i128;
        i += 1;
    }
    Ok(int_from_i128::<N>(v))
}

const RADIX_H: u128 = lexical_core::NumberFormatBuilder::from_radix(16);
const RADIX_Q: u128 = lexical_core::NumberFormatBuilder::from_radix(8);

pub fn stub_parse_partial_radix<N: lexical_core::FromLexicalWithOptions, const FORMAT: u128>(
    bytes: &[u8],
    _options: &N::Options,
) -> lexical_core::Result<(N, usize)> {
    let radix: u64 = if FORMAT == RADIX_H {
        16
    } else if FORMAT == RADIX_Q {
        8
    } else {
        2
    };
    let mut i = 0;
    let mut sign = false;
    if i < bytes.len() && bytes[i] == b'+' {
        sign = true;
        i += 1;
    }
    if i >= bytes.len() {
        return Err(LexError::Empty(i));
    }
    let start = i;
    let mut v: u64 = 0;
    while i < bytes.len() {
        let c = bytes[i];
        let d = if c >= b'0' && c <= b'9' {
            (c - b'0') as u64
        } else if c >= b'a' && c <= b'f' {
            (c - b'a') as u64 + 10
        } else if c >= b'A' && c <= b'F' {
            (c - b'A') as u64 + 10
        } else {
            99
        };
        if d >= radix {
            break;
        }
        if v > (u64::MAX - d) / radix {
            return Err(LexError::Overflow(i));
        }
        v = v * radix + d;
        i += 1;
    }
    if i == start {
        return Ok((int_from_i128::<N>(0), if sign { 1 } else { 0 }));
    }
    Ok((int_from_i128::<N>(v as i128), i))
}
