//! C10 / C11 — formatter primitives carry byte-exact postconditions.
//!  growable (Vec<u8>)        : every write succeeds and appends exactly the bytes given;
//!  fixed (ArrayVec<u8, CAP>) : a write that fits behaves identically; one that does not fit
//!                              returns -225 Out of memory, leaves the buffer unchanged, never
//!                              panics and never exceeds CAP (CAP in {0,1,2,3,8}; content and
//!                              fill level symbolic).
//! Because `ResponseData` impls and `ResponseUnit` reach the buffer only through
//! `&mut dyn Formatter`, "identical bytes if it fits, -225 otherwise, at every write position"
//! follows by induction over the write sequence from these two contracts plus the latch of
//! C05/ResponseUnit.  The message-level clauses (`;` between units, final NL) are
//! C05/Node::run_tokens obligations.
use super::kenv::*;
use super::vk::*;
use arrayvec::ArrayVec;
use scpi::error::{Error, ErrorCode};
use scpi::parser::response::{Formatter, ResponseData};

fn same_prefix(a: &[u8], b: &[u8], n: usize) -> bool {
    let mut i = 0;
    while i < n {
        if a[i] != b[i] {
            return false;
        }
        i += 1;
    }
    true
}

#[kani::proof]
#[kani::unwind(8)]
pub fn vec_formatter_primitives() {
    let pre: [u8; 3] = kani::any();
    let npre: usize = kani::any();
    kani::assume(npre <= 3);
    let s: [u8; 3] = kani::any();
    let ns: usize = kani::any();
    kani::assume(ns <= 3);
    let mut v = alloc::vec::Vec::<u8>::new();
    v.extend_from_slice(&pre[..npre]);
    assert!(Formatter::len(&v) == npre && Formatter::is_empty(&v) == (npre == 0), "C10/Vec::len|is_empty/report-buffer-length");
    assert!(v.message_start().is_ok() && v.len() == npre, "C10/Vec::message_start/writes-nothing");
    assert!(v.push_str(&s[..ns]).is_ok(), "C10/Vec::push_str/always-succeeds");
    assert!(v.len() == npre + ns && same_prefix(&v, &pre, npre) && same_prefix(&v[npre..], &s, ns), "C10/Vec::push_str/appends-exactly-the-bytes");
    let b: u8 = kani::any();
    assert!(v.push_byte(b).is_ok() && v.len() == npre + ns + 1 && v[npre + ns] == b, "C10/Vec::push_byte/appends-exactly-one-byte");
    assert!(v.data_separator().is_ok() && v[npre + ns + 1] == b',', "C10/Formatter::data_separator/is-a-comma");
    assert!(v.header_separator().is_ok() && v[npre + ns + 2] == b' ', "C10/Formatter::header_separator/is-a-space");
    assert!(v.message_end().is_ok() && v.len() == npre + ns + 4 && v[npre + ns + 3] == b'\n', "C10/Vec::message_end/appends-one-NL");
    assert!(same_prefix(Formatter::as_slice(&v), &pre, npre), "C10/Vec::as_slice/is-the-buffer");
    Formatter::clear(&mut v);
    assert!(v.len() == 0, "C10/Vec::clear/empties");
}

#[kani::proof]
#[kani::unwind(8)]
pub fn vec_response_unit_separator() {
    let npre: usize = kani::any();
    kani::assume(npre <= 2);
    let pre: [u8; 2] = kani::any();
    kani::cover!(npre == 2 && pre[1] == b'\n');
    let mut v = alloc::vec::Vec::<u8>::new();
    v.extend_from_slice(&pre[..npre]);
    {
        let u = v.response_unit();
        assert!(u.is_ok(), "C10/Vec::response_unit/ok");
        let (res, hh, hd) = scpi::parser::response::verif_hook::state(&u.unwrap());
        assert!(res.is_ok() && !hh && !hd, "C10/Vec::response_unit/fresh-unit-state");
    }
    if npre == 0 {
        assert!(v.len() == 0, "C10/Vec::response_unit/no-separator-before-the-first-unit");
    } else {
        assert!(v.len() == npre + 1 && v[npre] == b';', "C10/Vec::response_unit/semicolon-between-units");
    }
}

macro_rules! array_harness {
    ($name:ident, $unit:ident, $cap:expr) => {
        #[kani::proof]
        #[kani::unwind(12)]
        pub fn $name() {
            const CAP: usize = $cap;
            let pre: [u8; CAP] = kani::any();
            let npre: usize = kani::any();
            kani::assume(npre <= CAP);
            let s: [u8; 4] = kani::any();
            let ns: usize = kani::any();
            kani::assume(ns <= 4);
            let mut a = ArrayVec::<u8, CAP>::new();
            let mut reference = alloc::vec::Vec::<u8>::new();
            let mut i = 0;
            while i < CAP {
                if i < npre {
                    a.push(pre[i]);
                    reference.push(pre[i]);
                }
                i += 1;
            }
            kani::cover!(npre + ns == CAP);
            kani::cover!(npre + ns == CAP + 1);
            let r = a.push_str(&s[..ns]);
            if npre + ns <= CAP {
                let _ = reference.push_str(&s[..ns]);
                assert!(r.is_ok(), "C11/ArrayVec::push_str/fits-so-succeeds");
            } else {
                assert!(r == Err(Error::new(ErrorCode::OutOfMemory)), "C11/ArrayVec::push_str/does-not-fit-so-225");
            }
            assert!(a.len() <= CAP, "C11/ArrayVec::push_str/never-exceeds-capacity");
            assert!(a.len() == reference.len() && same_prefix(&a, &reference, a.len()), "C11/ArrayVec::push_str/bytes-identical-to-growable-buffer-or-unchanged");
            let b: u8 = kani::any();
            let before = a.len();
            let r = a.push_byte(b);
            if before < CAP {
                let _ = reference.push_byte(b);
                assert!(r.is_ok(), "C11/ArrayVec::push_byte/fits-so-succeeds");
            } else {
                assert!(r == Err(Error::new(ErrorCode::OutOfMemory)), "C11/ArrayVec::push_byte/does-not-fit-so-225");
            }
            assert!(a.len() == reference.len() && same_prefix(&a, &reference, a.len()), "C11/ArrayVec::push_byte/bytes-identical-to-growable-buffer-or-unchanged");
            let before = a.len();
            let r = a.message_end();
            if before < CAP {
                assert!(r.is_ok() && a.len() == before + 1 && a[before] == b'\n', "C11/ArrayVec::message_end/appends-one-NL-when-it-fits");
            } else {
                assert!(r == Err(Error::new(ErrorCode::OutOfMemory)) && a.len() == before, "C11/ArrayVec::message_end/225-when-full");
            }
            assert!(Formatter::len(&a) == a.len() && Formatter::is_empty(&a) == (a.len() == 0), "C11/ArrayVec::len|is_empty/report-buffer-length");
            assert!(a.message_start().is_ok(), "C11/ArrayVec::message_start/ok");
        }

        #[kani::proof]
        #[kani::unwind(12)]
        pub fn $unit() {
            const CAP: usize = $cap;
            let npre: usize = kani::any();
            kani::assume(npre <= CAP);
            let mut a = ArrayVec::<u8, CAP>::new();
            let mut i = 0;
            while i < CAP {
                if i < npre {
                    a.push(kani::any());
                }
                i += 1;
            }
            let ok;
            {
                let u = a.response_unit();
                ok = u.is_ok();
                if npre > 0 && npre == CAP {
                    assert!(match u { Err(e) => e == Error::new(ErrorCode::OutOfMemory), Ok(_) => false }, "C11/ArrayVec::response_unit/separator-does-not-fit-so-225-not-a-panic");
                } else {
                    assert!(ok, "C11/ArrayVec::response_unit/ok-when-the-separator-fits");
                }
            }
            if npre == 0 {
                assert!(a.len() == 0, "C10/ArrayVec::response_unit/no-separator-before-the-first-unit");
            } else if npre < CAP {
                assert!(a.len() == npre + 1 && a[npre] == b';', "C10/ArrayVec::response_unit/semicolon-between-units");
            } else {
                assert!(a.len() == npre, "C11/ArrayVec::response_unit/buffer-unchanged-on-225");
            }
        }
    };
}
array_harness!(array_cap0, array_unit_cap0, 0);
array_harness!(array_cap1, array_unit_cap1, 1);
array_harness!(array_cap2, array_unit_cap2, 2);
array_harness!(array_cap3, array_unit_cap3, 3);
array_harness!(array_cap8, array_unit_cap8, 8);

/// Message level with a fixed buffer: `run_tokens` (exec = contract stub writing one byte per
/// query) into ANY formatter that satisfies the fixed-capacity contract proved above for
/// ArrayVec<u8, CAP> (capacity symbolic 0..=4) gives -225 exactly when the growable response
/// would not fit, with identical bytes otherwise.
#[kani::proof]
#[kani::unwind(6)]
#[kani::stub(<crate::parser::tokenizer::Tokenizer as core::iter::Iterator>::next, super::kscript::stub_next)]
#[kani::stub(crate::tree::Node::exec, super::c05::stub_exec)]
pub fn run_tokens_fixed() {
    super::c05::run_tokens_fixed_body();
}

/// The harness formatter used above satisfies the same primitive contract as ArrayVec.
#[kani::proof]
#[kani::unwind(8)]
pub fn contract_formatter_matches_arrayvec() {
    let cap: usize = kani::any();
    kani::assume(cap <= 3);
    let s: [u8; 4] = kani::any();
    let ns: usize = kani::any();
    kani::assume(ns <= 4);
    let mut f = ArrFmt::new(cap);
    let mut a = ArrayVec::<u8, 3>::new();
    // emulate capacity `cap` on the 3-byte ArrayVec by pre-filling 3-cap bytes
    let mut i = 0;
    while i < 3 {
        if i < 3 - cap {
            a.push(0);
        }
        i += 1;
    }
    let r1 = f.push_str(&s[..ns]);
    let r2 = a.push_str(&s[..ns]);
    assert!(r1.is_ok() == r2.is_ok() && f.len == a.len() - (3 - cap), "C11/contract-formatter/same-accept-reject-decision-and-length-as-ArrayVec");
    let b: u8 = kani::any();
    let r1 = f.push_byte(b);
    let r2 = a.push_byte(b);
    assert!(r1.is_ok() == r2.is_ok() && f.len == a.len() - (3 - cap), "C11/contract-formatter/push_byte-same-as-ArrayVec");
    assert!(r1.is_ok() || r1 == Err(Error::new(ErrorCode::OutOfMemory)), "C11/contract-formatter/failure-is-225");
}
