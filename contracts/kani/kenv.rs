//! Harness environment for the scpi crate: a device that records its error hook, a one-byte
//! response datum, a fault-injecting formatter, and a recording stub for `Node::exec`.
use core::iter::Peekable;
use scpi::error::{Error, ErrorCode, Result};
use scpi::parser::response::{Formatter, ResponseData, ResponseUnit};
use scpi::parser::tokenizer::{Token, Tokenizer};
use scpi::tree::prelude::*;

pub struct KD {
    pub hook_calls: u8,
    pub last: Option<Error>,
    pub handler_calls: u8,
}
impl KD {
    pub fn new() -> Self {
        KD { hook_calls: 0, last: None, handler_calls: 0 }
    }
}
impl Device for KD {
    fn handle_error(&mut self, err: Error) {
        self.hook_calls += 1;
        self.last = Some(err);
    }
}

/// Response datum that writes exactly one byte.
pub struct Byte(pub u8);
impl ResponseData for Byte {
    fn format_response_data(&self, f: &mut dyn Formatter) -> Result<()> {
        f.push_byte(self.0)
    }
}

pub fn is_err_code<T>(r: &core::result::Result<T, Error>, code: i16) -> bool {
    match r {
        Err(e) => e.get_code() == code,
        Ok(_) => false,
    }
}

pub fn small_error(k: u8) -> Error {
    match k {
        0 => Error::new(ErrorCode::ExecutionError),
        1 => Error::new(ErrorCode::DataOutOfRange),
        2 => Error::new(ErrorCode::OutOfMemory),
        _ => Error::new(ErrorCode::UndefinedHeader),
    }
}

/// Minimal array-backed formatter (growable semantics up to 16 bytes, or a hard capacity):
/// keeps allocator code out of harnesses whose subject is not the buffer.
pub struct ArrFmt {
    pub bytes: [u8; 16],
    pub len: usize,
    pub cap: usize,
}
impl ArrFmt {
    pub fn new(cap: usize) -> Self {
        ArrFmt { bytes: [0; 16], len: 0, cap }
    }
}
impl Formatter for ArrFmt {
    fn push_str(&mut self, s: &[u8]) -> Result<()> {
        if self.len + s.len() > self.cap || self.len + s.len() > 16 {
            return Err(Error::new(ErrorCode::OutOfMemory));
        }
        let mut i = 0;
        while i < s.len() {
            self.bytes[self.len] = s[i];
            self.len += 1;
            i += 1;
        }
        Ok(())
    }
    fn push_byte(&mut self, b: u8) -> Result<()> {
        if self.len >= self.cap || self.len >= 16 {
            return Err(Error::new(ErrorCode::OutOfMemory));
        }
        self.bytes[self.len] = b;
        self.len += 1;
        Ok(())
    }
    fn as_slice(&self) -> &[u8] {
        &self.bytes[..self.len]
    }
    fn clear(&mut self) {
        self.len = 0
    }
    fn len(&self) -> usize {
        self.len
    }
    fn message_start(&mut self) -> Result<()> {
        Ok(())
    }
    fn message_end(&mut self) -> Result<()> {
        self.push_byte(b'\n')
    }
    fn response_unit(&mut self) -> Result<ResponseUnit> {
        if !self.is_empty() {
            self.push_byte(b';')?;
        }
        Ok(scpi::parser::response::verif_hook::unit(self))
    }
}
