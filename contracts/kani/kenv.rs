//! Harness environment for the scpi crate: a device that records its error hook, a one-byte
//! response datum, a fault-injecting formatter, and a recording stub for `Node::exec`.
use core::iter::Peekable;
use scpi::error::{Error, ErrorCode, Result};
use scpi::parser::response::{Formatter, ResponseData, ResponseUnit};
use scpi::parser::tokenizer::{Token, Tokenizer};
use scpi::tree::prelude::*;

pub struct KD {
    pub hook_calls: u8,
    pub last: Option<Error>,
    pub handler_calls: u8,
}
impl KD {
    pub fn new() -> Self {
        KD { hook_calls: 0, last: None, handler_calls: 0 }
    }
}
impl Device for KD {
    fn handle_error(&mut self, err: Error) {
        self.hook_calls += 1;
        self.last = Some(err);
    }
}

/// Response datum that writes exactly one byte.
pub struct Byte(pub u8);
impl ResponseData for Byte {
    fn format_response_data(&self, f: &mut dyn Formatter) -> Result<()> {
        f.push_byte(self.0)
    }
}

pub fn is_err_code<T>(r: &core::result::Result<T, Error>, code: i16) -> bool {
    match r {
        Err(e) => e.get_code() == code,
        Ok(_) => false,
    }
}

pub fn small_error(k: u8) -> Error {
    match k {
        0 => Error::new(ErrorCode::ExecutionError),
        1 => Error::new(ErrorCode::DataOutOfRange),
        2 => Error::new(ErrorCode::OutOfMemory),
        _ => Error::new(ErrorCode::UndefinedHeader),
    }
}
