//! C17 — numeric_value parameters resolve MIN/MAX/DEF and never leave [min, max].
//! `NumericValue<T>::try_from` is verified against an abstract underlying type (it must
//! delegate for everything that is not one of the five keywords); `NumericBuilder::finish` is
//! loop-free and checked for all values / bounds / defaults of u8, i32, i64, f32, f64.
use super::spec::*;
use crate::scpi1999::{NumericBuilder, NumericValue, NumericValueDefaults};
use scpi::error::{Error, ErrorCode};
use scpi::parser::tokenizer::Token;

/// Abstract underlying type: remembers which token it was built from; refuses strings.
#[derive(Debug, PartialEq, Eq, Clone, Copy)]
pub struct Echo<'a>(Token<'a>);
impl<'a> TryFrom<Token<'a>> for Echo<'a> {
    type Error = Error;
    fn try_from(t: Token<'a>) -> Result<Self, Error> {
        if let Token::StringProgramData(_) = t {
            Err(Error::new(ErrorCode::DataTypeError))
        } else {
            Ok(Echo(t))
        }
    }
}

#[kani::proof]
#[kani::unwind(14)]
pub fn numeric_value_keywords() {
    let c: [u8; 12] = kani::any();
    let n: usize = kani::any();
    kani::assume(n >= 1 && n <= 12);
    let s = &c[..n];
    kani::assume(spec_cand(s));
    let tok = Token::CharacterProgramData(s);
    let r = NumericValue::<Echo>::try_from(tok);
    kani::cover!(spec_compare(b"DEFault", s) && n == 3);
    kani::cover!(spec_compare(b"DOWN", s));
    if spec_compare(b"MAXimum", s) {
        assert!(r == Ok(NumericValue::Maximum), "C17/NumericValue::try_from/MAXimum");
    } else if spec_compare(b"MINimum", s) {
        assert!(r == Ok(NumericValue::Minimum), "C17/NumericValue::try_from/MINimum");
    } else if spec_compare(b"DEFault", s) {
        assert!(r == Ok(NumericValue::Default), "C17/NumericValue::try_from/DEFault");
    } else if spec_compare(b"UP", s) {
        assert!(r == Ok(NumericValue::Up), "C17/NumericValue::try_from/UP");
    } else if spec_compare(b"DOWN", s) {
        assert!(r == Ok(NumericValue::Down), "C17/NumericValue::try_from/DOWN");
    } else {
        assert!(r == Ok(NumericValue::Value(Echo(tok))), "C17/NumericValue::try_from/other-character-data-converts-as-the-underlying-type");
    }
}

#[kani::proof]
#[kani::unwind(8)]
pub fn numeric_value_delegates() {
    let p: [u8; 4] = kani::any();
    let k: u8 = kani::any();
    kani::assume(k < 6);
    let tok = match k {
        0 => Token::DecimalNumericProgramData(&p),
        1 => Token::DecimalNumericSuffixProgramData(&p, b"S"),
        2 => Token::NonDecimalNumericProgramData(kani::any()),
        3 => Token::StringProgramData(&p),
        4 => Token::ArbitraryBlockData(&p),
        _ => Token::ExpressionProgramData(&p),
    };
    let r = NumericValue::<Echo>::try_from(tok);
    if k == 3 {
        assert!(r == Err(Error::new(ErrorCode::DataTypeError)), "C17/NumericValue::try_from/underlying-error-is-propagated");
    } else {
        assert!(r == Ok(NumericValue::Value(Echo(tok))), "C17/NumericValue::try_from/non-keyword-elements-convert-as-the-underlying-type");
    }
}

fn any_value<T: kani::Arbitrary>() -> NumericValue<T> {
    let k: u8 = kani::any();
    kani::assume(k < 6);
    match k {
        0 => NumericValue::Maximum,
        1 => NumericValue::Minimum,
        2 => NumericValue::Default,
        3 => NumericValue::Up,
        4 => NumericValue::Down,
        _ => NumericValue::Value(kani::any()),
    }
}

macro_rules! finish_harness {
    ($name:ident, $t:ty, $eq:expr) => {
        #[kani::proof]
#[kani::unwind(8)]
        pub fn $name() {
            let value: NumericValue<$t> = any_value();
            let max: $t = kani::any();
            let min: $t = kani::any();
            let has_default: bool = kani::any();
            let dflt: $t = kani::any();
            let eq = $eq;
            let route: u8 = kani::any();
            kani::assume(route < 3);
            // three public ways to reach finish()
            let r = match route {
                0 => {
                    let b = NumericBuilder::new(value, max, min);
                    if has_default { b.default(dflt).finish() } else { b.finish() }
                }
                1 => {
                    let b = value.build().max(max).min(min);
                    if has_default { b.default(dflt).finish() } else { b.finish() }
                }
                _ => {
                    kani::assume(!has_default);
                    value.finish_with(max, min)
                }
            };
            kani::cover!(matches!(value, NumericValue::Value(_)) && r.is_ok());
            kani::cover!(matches!(value, NumericValue::Value(_)) && r.is_err());
            match value {
                NumericValue::Maximum => assert!(match r { Ok(x) => eq(x, max), _ => false }, "C17/NumericBuilder::finish/MAXimum-yields-max"),
                NumericValue::Minimum => assert!(match r { Ok(x) => eq(x, min), _ => false }, "C17/NumericBuilder::finish/MINimum-yields-min"),
                NumericValue::Default => {
                    if has_default {
                        assert!(match r { Ok(x) => eq(x, dflt), _ => false }, "C17/NumericBuilder::finish/DEFault-yields-configured-default")
                    } else {
                        assert!(r == Err(Error::new(ErrorCode::IllegalParameterValue)), "C17/NumericBuilder::finish/DEFault-without-default-is-224")
                    }
                }
                NumericValue::Up | NumericValue::Down => assert!(r == Err(Error::new(ErrorCode::IllegalParameterValue)), "C17/NumericBuilder::finish/UP-DOWN-are-224"),
                NumericValue::Value(t) => {
                    if t >= min && t <= max {
                        assert!(match r { Ok(x) => eq(x, t), _ => false }, "C17/NumericBuilder::finish/value-within-bounds-is-returned")
                    } else {
                        assert!(r == Err(Error::new(ErrorCode::DataOutOfRange)), "C17/NumericBuilder::finish/value-outside-bounds-is-222")
                    }
                    if let Ok(x) = r {
                        assert!(x >= min && x <= max, "C17/NumericBuilder::finish/resolved-value-lies-within-min-max");
                    }
                }
            }
        }
    };
}
finish_harness!(finish_u8, u8, |a: u8, b: u8| a == b);
finish_harness!(finish_i32, i32, |a: i32, b: i32| a == b);
finish_harness!(finish_i64, i64, |a: i64, b: i64| a == b);
finish_harness!(finish_f32, f32, |a: f32, b: f32| a.to_bits() == b.to_bits());
finish_harness!(finish_f64, f64, |a: f64, b: f64| a.to_bits() == b.to_bits());

#[kani::proof]
#[kani::unwind(8)]
pub fn defaults_are_type_bounds() {
    assert!(u8::numeric_value_max() == u8::MAX && u8::numeric_value_min() == u8::MIN, "C17/NumericValueDefaults/u8");
    assert!(i32::numeric_value_max() == i32::MAX && i32::numeric_value_min() == i32::MIN, "C17/NumericValueDefaults/i32");
    assert!(i64::numeric_value_max() == i64::MAX && i64::numeric_value_min() == i64::MIN, "C17/NumericValueDefaults/i64");
    assert!(u16::numeric_value_max() == u16::MAX && i8::numeric_value_min() == i8::MIN, "C17/NumericValueDefaults/u16-i8");
    assert!(f32::numeric_value_max() == f32::MAX && f32::numeric_value_min() == f32::MIN, "C17/NumericValueDefaults/f32");
    assert!(f64::numeric_value_max() == f64::MAX && f64::numeric_value_min() == f64::MIN, "C17/NumericValueDefaults/f64");
    let v: NumericValue<i32> = NumericValue::default();
    assert!(v == NumericValue::Default, "C17/NumericValue::default/is-DEFault");
}
