//! C12 (bounded, supporting): the REAL `arrayvec::ArrayVec<Error, CAP>` and `Vec<Error>` queue
//! implementations against the abstract bounded FIFO for CAP in {1,2,3} and every sequence of
//! 3 operations.  The unbounded proof is the Verus group; this group (a) validates the trusted
//! ArrayVec shim used there against the real dependency and (b) still decides the property
//! when an implementation uses an ArrayVec method the shim does not model.
use scpi::error::{Error, ErrorCode, ErrorQueue};

const M: usize = 4;
struct Model {
    items: [i16; M],
    len: usize,
    cap: usize,
}
impl Model {
    fn push(&mut self, code: i16) {
        if self.len < self.cap {
            self.items[self.len] = code;
            self.len += 1;
        } else {
            self.items[self.cap - 1] = -350;
        }
    }
    fn pop(&mut self) -> Option<i16> {
        if self.len == 0 {
            return None;
        }
        let c = self.items[0];
        let mut i = 1;
        while i < M {
            self.items[i - 1] = self.items[i];
            i += 1;
        }
        self.len -= 1;
        Some(c)
    }
}

fn drive<Q: ErrorQueue>(q: &mut Q, cap: usize) {
    let mut m = Model { items: [0; M], len: 0, cap };
    let mut step = 0;
    while step < 3 {
        let op: u8 = kani::any();
        kani::assume(op < 4);
        match op {
            0 | 1 => {
                let code: i16 = kani::any();
                kani::assume(code != -350);
                let e = if op == 0 { Error::custom(code, b"c") } else { Error::custom(code, b"c").extended(b"x") };
                q.push_back_error(e);
                m.push(code);
            }
            2 => {
                let got = q.pop_front_error();
                let exp = m.pop();
                assert!(got.map(|e| e.get_code()) == exp, "C12/ErrorQueue::pop_front_error/returns-errors-in-insertion-order");
            }
            _ => {
                q.clear_errors();
                m.len = 0;
            }
        }
        assert!(q.num_errors() == m.len, "C12/ErrorQueue::num_errors/reports-the-length-exactly");
        assert!(q.is_empty() == (m.len == 0), "C12/ErrorQueue::is_empty/iff-length-zero");
        assert!(m.len <= cap, "C12/ErrorQueue/never-holds-more-than-N");
        step += 1;
    }
    // drain: order and overflow marker in the newest retained position
    let mut k = 0;
    while k < M {
        let got = q.pop_front_error();
        let exp = m.pop();
        assert!(got.map(|e| e.get_code()) == exp, "C12/ErrorQueue/drain-returns-retained-entries-in-order-with-350-in-the-newest-slot-after-overflow");
        k += 1;
    }
}

macro_rules! arrayvec_queue {
    ($name:ident, $cap:expr) => {
        #[kani::proof]
        #[kani::unwind(8)]
        pub fn $name() {
            let mut q = arrayvec::ArrayVec::<Error, $cap>::new();
            drive(&mut q, $cap);
        }
    };
}
arrayvec_queue!(arrayvec_cap1, 1);
arrayvec_queue!(arrayvec_cap2, 2);

#[kani::proof]
#[kani::unwind(8)]
pub fn vec_queue() {
    let mut q = alloc::vec::Vec::<Error>::new();
    drive(&mut q, M);
}
