//! C12 (bounded, supporting): the REAL `arrayvec::ArrayVec<Error, CAP>` and `Vec<Error>` queue
//! implementations against the abstract bounded FIFO for CAP in {1,2,3} and every sequence of
//! 3 operations.  The unbounded proof is the Verus group; this group (a) validates the trusted
//! ArrayVec shim used there against the real dependency and (b) still decides the property
//! when an implementation uses an ArrayVec method the shim does not model.
use scpi::error::{Error, ErrorCode, ErrorQueue};

const M: usize = 6;
struct Model {
    items: [i16; M],
    len: usize,
    cap: usize,
}
impl Model {
    fn push(&mut self, code: i16) {
        if self.len < self.cap {
            self.items[self.len] = code;
            self.len += 1;
        } else {
            self.items[self.cap - 1] = -350;
        }
    }
    fn pop(&mut self) -> Option<i16> {
        if self.len == 0 {
            return None;
        }
        let c = self.items[0];
        let mut i = 1;
        while i < M {
            self.items[i - 1] = self.items[i];
            i += 1;
        }
        self.len -= 1;
        Some(c)
    }
}

fn drive<Q: ErrorQueue>(q: &mut Q, cap: usize) {
    let mut m = Model { items: [0; M], len: 0, cap };
    let mut step = 0;
    while step < 3 {
        let op: u8 = kani::any();
        kani::assume(op < 4);
        match op {
            0 | 1 => {
                let code: i16 = kani::any();
                kani::assume(code != -350);
                let e = if op == 0 { Error::custom(code, b"c") } else { Error::custom(code, b"c").extended(b"x") };
                q.push_back_error(e);
                m.push(code);
            }
            2 => {
                let got = q.pop_front_error();
                let exp = m.pop();
                assert!(got.map(|e| e.get_code()) == exp, "C12/ErrorQueue::pop_front_error/returns-errors-in-insertion-order");
            }
            _ => {
                q.clear_errors();
                m.len = 0;
            }
        }
        assert!(q.num_errors() == m.len, "C12/ErrorQueue::num_errors/reports-the-length-exactly");
        assert!(q.is_empty() == (m.len == 0), "C12/ErrorQueue::is_empty/iff-length-zero");
        assert!(m.len <= cap, "C12/ErrorQueue/never-holds-more-than-N");
        step += 1;
    }
    // drain: order and overflow marker in the newest retained position
    let mut k = 0;
    while k < 4 {
        let got = q.pop_front_error();
        let exp = m.pop();
        assert!(got.map(|e| e.get_code()) == exp, "C12/ErrorQueue/drain-returns-retained-entries-in-order-with-350-in-the-newest-slot-after-overflow");
        k += 1;
    }
}

macro_rules! arrayvec_queue {
    ($name:ident, $cap:expr) => {
        #[kani::proof]
        #[kani::unwind(8)]
        pub fn $name() {
            let mut q = arrayvec::ArrayVec::<Error, $cap>::new();
            drive(&mut q, $cap);
        }
    };
}
arrayvec_queue!(arrayvec_cap1, 1);
arrayvec_queue!(arrayvec_cap2, 2);

#[kani::proof]
#[kani::unwind(8)]
pub fn vec_queue() {
    let mut q = alloc::vec::Vec::<Error>::new();
    drive(&mut q, M);
}


/// From ANY queue content (every length 0..=n_max, each entry an ordinary error with a symbolic
/// code or an earlier overflow marker) every sequence of NOPS further operations behaves like
/// the abstract bounded FIFO — the induction step of the history statement, on the real
/// `arrayvec` crate and on `alloc::vec::Vec`.  Lengths and operation kinds are enumerated
/// concretely (CBMC's model of `ptr::copy` with a symbolic element count, which
/// `ArrayVec::pop_at` reaches through `Drain::drop`, reports spurious results: see
/// DESIGN 2b), codes and marker positions are symbolic.
trait RawPush {
    fn raw_push(&mut self, e: Error);
}
impl<const CAP: usize> RawPush for arrayvec::ArrayVec<Error, CAP> {
    fn raw_push(&mut self, e: Error) {
        self.push(e)
    }
}
impl RawPush for alloc::vec::Vec<Error> {
    fn raw_push(&mut self, e: Error) {
        self.push(e)
    }
}

fn from_state<Q: ErrorQueue + RawPush, const NOPS: usize>(q: &mut Q, cap: usize, n0: usize, ops: [u8; NOPS]) {
    let mut m = Model { items: [0; M], len: 0, cap };
    let mut i = 0;
    while i < n0 {
        let code: i16 = kani::any();
        if code == -350 {
            q.raw_push(Error::new(ErrorCode::QueueOverflow));
        } else {
            q.raw_push(Error::custom(code, b"c"));
        }
        m.items[i] = code;
        m.len += 1;
        i += 1;
    }
    let mut step = 0;
    while step < NOPS {
        match ops[step] {
            0 => {
                let code: i16 = kani::any();
                kani::assume(code != -350);
                q.push_back_error(Error::custom(code, b"n"));
                m.push(code);
            }
            1 => {
                let got = q.pop_front_error();
                let exp = m.pop();
                assert!(got.map(|e| e.get_code()) == exp, "C12/ErrorQueue::pop_front_error/returns-errors-in-insertion-order");
            }
            _ => {
                q.clear_errors();
                m.len = 0;
            }
        }
        assert!(q.num_errors() == m.len, "C12/ErrorQueue::num_errors/reports-the-length-exactly");
        assert!(q.is_empty() == (m.len == 0), "C12/ErrorQueue::is_empty/iff-length-zero");
        step += 1;
    }
    let mut k = 0;
    while k < n0 + NOPS && k < cap {
        let got = q.pop_front_error();
        let exp = m.pop();
        assert!(got.map(|e| e.get_code()) == exp, "C12/ErrorQueue/drain-returns-retained-entries-in-order-with-350-in-the-newest-slot-after-overflow");
        k += 1;
    }
    assert!(q.pop_front_error().is_none(), "C12/ErrorQueue/never-holds-more-than-N");
}

macro_rules! from_any_state {
    ($name:ident, $new:expr, $cap:expr, $nmax:expr, 2) => {
        #[kani::proof]
        #[kani::unwind(7)]
        pub fn $name() {
            let mut n0 = 0;
            while n0 <= $nmax {
                let mut a = 0u8;
                while a < 3 {
                    let mut b = 0u8;
                    while b < 3 {
                        let mut q = $new;
                        from_state(&mut q, $cap, n0, [a, b]);
                        b += 1;
                    }
                    a += 1;
                }
                n0 += 1;
            }
        }
    };
    ($name:ident, $new:expr, $cap:expr, $nmax:expr, 3) => {
        #[kani::proof]
        #[kani::unwind(7)]
        pub fn $name() {
            let mut n0 = 0;
            while n0 <= $nmax {
                let mut a = 0u8;
                while a < 3 {
                    let mut b = 0u8;
                    while b < 3 {
                        let mut c = 0u8;
                        while c < 3 {
                            let mut q = $new;
                            from_state(&mut q, $cap, n0, [a, b, c]);
                            c += 1;
                        }
                        b += 1;
                    }
                    a += 1;
                }
                n0 += 1;
            }
        }
    };
}
from_any_state!(arrayvec_cap3_from_any_state_2ops, arrayvec::ArrayVec::<Error, 3>::new(), 3, 3, 2);
from_any_state!(arrayvec_cap2_from_any_state, arrayvec::ArrayVec::<Error, 2>::new(), 2, 2, 3);
from_any_state!(arrayvec_cap3_from_any_state, arrayvec::ArrayVec::<Error, 3>::new(), 3, 3, 3);
from_any_state!(vec_from_any_state_2ops, alloc::vec::Vec::<Error>::new(), M, 3, 2);
