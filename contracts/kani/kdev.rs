//! A device wired in the documented way (examples/minimal_scpi.rs) with symbolic registers and
//! a small bounded FIFO as its error queue.  Harness environment for C13, C15, C16.
use scpi::error::{Error, ErrorCode, ErrorQueue, Result};
use scpi::tree::prelude::*;
use crate::ieee488::prelude::*;
use crate::scpi1999::prelude::*;

pub const QCAP: usize = 3;

#[derive(Clone, Copy, PartialEq, Eq, Debug)]
pub struct KQueue {
    pub items: [Error; QCAP],
    pub len: usize,
}

impl KQueue {
    pub fn push(&mut self, e: Error) {
        if self.len < QCAP {
            self.items[self.len] = e;
            self.len += 1;
        } else {
            self.items[QCAP - 1] = Error::new(ErrorCode::QueueOverflow);
        }
    }
    pub fn pop(&mut self) -> Option<Error> {
        if self.len == 0 {
            None
        } else {
            let e = self.items[0];
            let mut i = 1;
            while i < QCAP {
                self.items[i - 1] = self.items[i];
                i += 1;
            }
            self.len -= 1;
            Some(e)
        }
    }
}

#[derive(Clone, Copy, PartialEq, Eq, Debug)]
pub struct KDev {
    pub esr: u8,
    pub ese: u8,
    pub sre: u8,
    pub oper: EventRegister,
    pub ques: EventRegister,
    pub q: KQueue,
    pub tst_code: i16,
    pub rst_calls: u8,
    pub hook_calls: u8,
}

impl Device for KDev {
    fn handle_error(&mut self, err: Error) {
        self.hook_calls += 1;
        self.push_error(err)
    }
}
impl IEEE4882 for KDev {
    fn stb(&self) -> u8 {
        self.scpi_stb()
    }
    fn sre(&self) -> u8 {
        self.sre
    }
    fn set_sre(&mut self, v: u8) {
        self.sre = v
    }
    fn esr(&self) -> u8 {
        self.esr
    }
    fn set_esr(&mut self, v: u8) {
        self.esr = v
    }
    fn ese(&self) -> u8 {
        self.ese
    }
    fn set_ese(&mut self, v: u8) {
        self.ese = v
    }
    fn tst(&mut self) -> Result<()> {
        if self.tst_code == 0 {
            Ok(())
        } else {
            Err(Error::custom(self.tst_code, b"self test"))
        }
    }
    fn rst(&mut self) -> Result<()> {
        self.rst_calls += 1;
        Ok(())
    }
    fn cls(&mut self) -> Result<()> {
        self.scpi_cls()
    }
    fn opc(&mut self) -> Result<()> {
        self.scpi_opc()
    }
}
impl GetEventRegister<Operation> for KDev {
    fn register(&self) -> &EventRegister {
        &self.oper
    }
    fn register_mut(&mut self) -> &mut EventRegister {
        &mut self.oper
    }
}
impl GetEventRegister<Questionable> for KDev {
    fn register(&self) -> &EventRegister {
        &self.ques
    }
    fn register_mut(&mut self) -> &mut EventRegister {
        &mut self.ques
    }
}
impl ErrorQueue for KDev {
    fn push_back_error(&mut self, err: Error) {
        self.q.push(err)
    }
    fn pop_front_error(&mut self) -> Option<Error> {
        self.q.pop()
    }
    fn num_errors(&self) -> usize {
        self.q.len
    }
    fn clear_errors(&mut self) {
        self.q.len = 0
    }
}
impl ScpiDevice for KDev {}

pub fn any_reg() -> EventRegister {
    EventRegister {
        condition: kani::any(),
        event: kani::any(),
        enable: kani::any(),
        ntr_filter: kani::any(),
        ptr_filter: kani::any(),
    }
}

/// Any error value: a standard one looked up by number, or a custom one, with or without
/// extended text.
pub fn any_error() -> Error {
    let code: i16 = kani::any();
    let base = if kani::any() {
        match ErrorCode::get_error(code) {
            Some(e) => Error::new(e),
            None => Error::custom(code, b"Vendor"),
        }
    } else {
        Error::custom(code, b"Vendor")
    };
    if kani::any() {
        base.extended(b"more")
    } else {
        base
    }
}

/// Errors with small concrete texts (keeps formatting harnesses cheap).
pub fn any_small_error() -> Error {
    let k: u8 = kani::any();
    kani::assume(k < 5);
    match k {
        0 => Error::new(ErrorCode::UndefinedHeader),
        1 => Error::new(ErrorCode::DataOutOfRange).extended(b"x"),
        2 => Error::custom(kani::any(), b"V"),
        3 => Error::new(ErrorCode::QueueOverflow),
        _ => Error::new(ErrorCode::OperationComplete),
    }
}

/// Errors with one-character texts (handlers that only pass errors on; their formatting is C09).
pub fn any_tiny_error() -> Error {
    let code: i16 = kani::any();
    kani::assume(code > -10 && code < 10);
    if kani::any() {
        Error::custom(code, b"V")
    } else {
        Error::custom(code, b"V").extended(b"x")
    }
}

/// Queue of 0..=3 items with concrete, distinct numbers (item i carries code i+1); only the
/// first item's extended text is symbolic.  Formatting of arbitrary errors is C09's obligation.
pub fn numbered_queue() -> KQueue {
    let len: usize = kani::any();
    kani::assume(len <= QCAP);
    let first = if kani::any() { Error::custom(1, b"V") } else { Error::custom(1, b"V").extended(b"x") };
    KQueue { items: [first, Error::custom(2, b"W"), Error::custom(3, b"X")], len }
}

pub fn any_dev_with(queue: KQueue) -> KDev {
    KDev {
        esr: kani::any(),
        ese: kani::any(),
        sre: kani::any(),
        oper: any_reg(),
        ques: any_reg(),
        q: queue,
        tst_code: kani::any(),
        rst_calls: 0,
        hook_calls: 0,
    }
}

pub fn any_queue(mk: fn() -> Error) -> KQueue {
    let len: usize = kani::any();
    kani::assume(len <= QCAP);
    KQueue { items: [mk(), mk(), mk()], len }
}

pub fn any_dev() -> KDev {
    any_dev_with(any_queue(any_error))
}

/// Expected text of one error-queue item: `code,"message"` / `code,"message;extended"`.
pub fn spec_error_item(e: &Error, out: &mut [u8; 96]) -> usize {
    let mut d = [0u8; 40];
    let n = super::spec::spec_dec32(e.get_code() as i32, &mut d);
    let mut k = 0;
    let mut i = 0;
    while i < n {
        out[k] = d[i];
        k += 1;
        i += 1;
    }
    out[k] = b',';
    out[k + 1] = b'"';
    k += 2;
    let m = e.get_message();
    i = 0;
    while i < m.len() {
        out[k] = m[i];
        k += 1;
        i += 1;
    }
    if let Some(x) = e.get_extended() {
        out[k] = b';';
        k += 1;
        i = 0;
        while i < x.len() {
            out[k] = x[i];
            k += 1;
            i += 1;
        }
    }
    out[k] = b'"';
    k + 1
}
