//! C20 — derived enums map mnemonics to variants and back consistently.
//! A contract cannot quantify over enum DEFINITIONS (the derive is a compile-time program);
//! the harness derives — through the real `scpi_derive::ScpiEnum` on every run — a family of
//! enums (unit and single-field variants, suffixed siblings, `L125`) and proves for every
//! character datum of <= 12 bytes: from_mnemonic(s) == the variant whose mnemonic matches s
//! (SCPI short/long form, default-1 suffix rule), `mnemonic()` is the attribute text,
//! `TryFrom<Token>` error codes, and response text selects the same variant.
use super::spec::*;
use super::vk::*;
use scpi::error::{Error, ErrorCode};
use scpi::option::ScpiEnum;
use scpi::parser::response::ResponseData;
use scpi::parser::tokenizer::Token;

#[derive(Copy, Clone, PartialEq, Debug, scpi_derive::ScpiEnum)]
pub enum Fmt {
    #[scpi(mnemonic = b"BINary")]
    Binary,
    #[scpi(mnemonic = b"REAL")]
    Real,
    #[scpi(mnemonic = b"ASCii1")]
    Ascii1,
    #[scpi(mnemonic = b"ASCii2")]
    Ascii2,
    #[scpi(mnemonic = b"L125")]
    L125,
}

#[derive(Copy, Clone, PartialEq, Debug, scpi_derive::ScpiEnum)]
pub enum Src {
    #[scpi(mnemonic = b"INTernal")]
    Internal(u8),
    #[scpi(mnemonic = b"BUS")]
    Bus,
    #[scpi(mnemonic = b"EXTernal2")]
    External2(u8),
}

#[derive(Copy, Clone, PartialEq, Debug, scpi_derive::ScpiEnum)]
pub enum One {
    #[scpi(mnemonic = b"STATe")]
    State,
}

macro_rules! enum_harness {
    ($name:ident, $resp:ident, $e:ty; $($variant:expr => $mn:literal),+) => {
        #[kani::proof]
        #[kani::unwind(14)]
        pub fn $name() {
            let c: [u8; 12] = kani::any();
            let s = any_prefix1(&c);
            kani::assume(spec_cand(s));
            // the variant SCPI designates (mnemonics are pairwise non-matching)
            let mut expect: Option<$e> = None;
            $( if expect.is_none() && spec_match($mn, s) { expect = Some($variant); } )+
            kani::cover!(expect.is_some() && s.len() >= 6);
            kani::cover!(expect.is_none());
            assert!(<$e>::from_mnemonic(s) == expect, "C20/ScpiEnum::from_mnemonic/selects-a-variant-exactly-when-the-datum-matches-its-mnemonic");
            let r = <$e>::try_from(Token::CharacterProgramData(s));
            match expect {
                Some(v) => assert!(r == Ok(v), "C20/derive::try_from/character-datum-selects-the-variant"),
                None => assert!(r == Err(Error::new(ErrorCode::IllegalParameterValue)), "C20/derive::try_from/other-character-data-is-224"),
            }
        }

        #[kani::proof]
        #[kani::unwind(14)]
        pub fn $resp() {
            $(
                let v: $e = $variant;
                assert!(bytes_eq(v.mnemonic(), $mn), "C20/ScpiEnum::mnemonic/each-variant-reports-its-own-mnemonic");
                let mut out = alloc::vec::Vec::<u8>::new();
                assert!(v.format_response_data(&mut out).is_ok(), "C20/ScpiEnum::format_response_data/ok");
                assert!(spec_match($mn, &out), "C20/ScpiEnum::format_response_data/emitted-text-matches-the-variants-mnemonic");
                assert!(<$e>::from_mnemonic(&out) == Some(v), "C20/ScpiEnum::format_response_data/emitted-text-selects-the-same-variant");
            )+
            // other element types are a type error
            let p: [u8; 3] = kani::any();
            let k: u8 = kani::any();
            kani::assume(k < 6);
            let tok = match k {
                0 => Token::DecimalNumericProgramData(&p),
                1 => Token::DecimalNumericSuffixProgramData(&p, b"V"),
                2 => Token::NonDecimalNumericProgramData(kani::any()),
                3 => Token::StringProgramData(&p),
                4 => Token::ArbitraryBlockData(&p),
                _ => Token::ExpressionProgramData(&p),
            };
            assert!(<$e>::try_from(tok) == Err(Error::new(ErrorCode::DataTypeError)), "C20/derive::try_from/other-element-types-are-104");
        }
    };
}

enum_harness!(fmt_candidates, fmt_response, Fmt;
    Fmt::Binary => b"BINary", Fmt::Real => b"REAL", Fmt::Ascii1 => b"ASCii1", Fmt::Ascii2 => b"ASCii2", Fmt::L125 => b"L125");
enum_harness!(src_candidates, src_response, Src;
    Src::Internal(0) => b"INTernal", Src::Bus => b"BUS", Src::External2(0) => b"EXTernal2");
enum_harness!(one_candidates, one_response, One;
    One::State => b"STATe");

/// `short_form()` is the upper-case (and digit) prefix of the mnemonic.
#[kani::proof]
#[kani::unwind(14)]
pub fn short_forms() {
    assert!(bytes_eq(Fmt::Binary.short_form(), b"BIN"), "C20/ScpiEnum::short_form/BINary");
    assert!(bytes_eq(Fmt::Real.short_form(), b"REAL"), "C20/ScpiEnum::short_form/REAL");
    assert!(bytes_eq(Fmt::Ascii1.short_form(), b"ASC"), "C20/ScpiEnum::short_form/ASCii1");
    assert!(bytes_eq(Fmt::L125.short_form(), b"L125"), "C20/ScpiEnum::short_form/L125");
    assert!(bytes_eq(Src::External2(0).short_form(), b"EXT"), "C20/ScpiEnum::short_form/EXTernal2");
}
