//! C08 — float, boolean and keyword parameters; per-target accept lists.
//! What is decided here: the keyword table, the boolean rule, the complete
//! (target type x element kind) accept matrix, "Ok payload is the token's payload" (never a
//! fabricated value) and the error classes.  NOT decided: that `lexical_core::parse::<f32|f64>`
//! is correctly rounded — that clause is an assumption (see evidence).
use super::klex::*;
use super::spec::*;
use super::vk::*;
use crate::error::{Error, ErrorCode};
use crate::parser::expression::{channel_list::ChannelList, numeric_list::NumericList};
use crate::parser::format::{Arbitrary, Character, Expression};
use crate::parser::tokenizer::Token;

fn err(c: ErrorCode) -> Error {
    Error::new(c)
}

macro_rules! float_harnesses {
    ($t:ty, $slot:ident, $dec:ident, $kw:ident, $other:ident) => {
        /// Decimal literal: the conversion returns exactly what the float parser returns.
        #[kani::proof]
        #[kani::unwind(20)]
        #[kani::stub(lexical_core::parse, stub_parse_f)]
        pub fn $dec() {
            let v: $t = kani::any();
            let mode: u8 = kani::any();
            kani::assume(mode < 5);
            unsafe {
                $slot = v;
                FLOAT_MODE = mode;
            }
            let r = <$t>::try_from(Token::DecimalNumericProgramData(b"1.5"));
            match mode {
                0 => match r {
                    Ok(x) => assert!(x.to_bits() == v.to_bits(), "C08/float::try_from/returns-the-parsed-value-bit-for-bit"),
                    Err(_) => assert!(false, "C08/float::try_from/a-parsed-literal-is-accepted"),
                },
                1 => assert!(r == Err(err(ErrorCode::InvalidCharacterInNumber)), "C08/float::try_from/invalid-digit-is-121"),
                2 | 3 => assert!(r == Err(err(ErrorCode::DataOutOfRange)), "C08/float::try_from/parser-range-error-is-222"),
                _ => assert!(r == Err(err(ErrorCode::NumericDataError)), "C08/float::try_from/other-parser-error-is-120"),
            }
        }

        /// INFinity, NINFinity, NAN, MAXimum, MINimum in short or long form; nothing else.
        #[kani::proof]
        #[kani::unwind(14)]
        pub fn $kw() {
            let c: [u8; 12] = kani::any();
            let s = any_prefix1(&c);
            kani::assume(spec_cand(s));
            let r = <$t>::try_from(Token::CharacterProgramData(s));
            kani::cover!(spec_compare(b"NINFinity", s) && s.len() == 4);
            kani::cover!(spec_compare(b"INFinity", s) && s.len() == 8);
            if spec_compare(b"INFinity", s) {
                assert!(r == Ok(<$t>::INFINITY), "C08/float::try_from/INFinity");
            } else if spec_compare(b"NINFinity", s) {
                assert!(r == Ok(<$t>::NEG_INFINITY), "C08/float::try_from/NINFinity");
            } else if spec_compare(b"NAN", s) {
                assert!(match r { Ok(x) => x != x, Err(_) => false }, "C08/float::try_from/NAN");
            } else if spec_compare(b"MAXimum", s) {
                assert!(r == Ok(<$t>::MAX), "C08/float::try_from/MAXimum");
            } else if spec_compare(b"MINimum", s) {
                assert!(r == Ok(<$t>::MIN), "C08/float::try_from/MINimum");
            } else {
                assert!(r == Err(err(ErrorCode::DataTypeError)), "C08/float::try_from/other-character-data-is-104");
            }
        }

        #[kani::proof]
        #[kani::unwind(3)]
        pub fn $other() {
            let p: [u8; 4] = kani::any();
            let k: u8 = kani::any();
            kani::assume(k < 5);
            let (tok, code) = match k {
                0 => (Token::DecimalNumericSuffixProgramData(&p, b"V"), ErrorCode::SuffixNotAllowed),
                1 => (Token::StringProgramData(&p), ErrorCode::DataTypeError),
                2 => (Token::ArbitraryBlockData(&p), ErrorCode::DataTypeError),
                3 => (Token::NonDecimalNumericProgramData(kani::any()), ErrorCode::DataTypeError),
                _ => (Token::ExpressionProgramData(&p), ErrorCode::DataTypeError),
            };
            assert!(<$t>::try_from(tok) == Err(err(code)), "C08/float::try_from/suffix-is-138-other-elements-are-104");
        }
    };
}
float_harnesses!(f32, F32_VALUE, dec_f32, kw_f32, other_f32);
float_harnesses!(f64, F64_VALUE, dec_f64, kw_f64, other_f64);

/// Boolean: ON / OFF in any case; any other character datum is -224; non-numeric,
/// non-character elements are -104.  (The numeric arm is C07's `bool_numeric`.)
#[kani::proof]
#[kani::unwind(14)]
pub fn bool_character() {
    let c: [u8; 12] = kani::any();
    let s = any_prefix(&c);
    let r = bool::try_from(Token::CharacterProgramData(s));
    kani::cover!(eq_ic(s, b"off"));
    if eq_ic(s, b"ON") {
        assert!(r == Ok(true), "C08/bool::try_from/ON-any-case-is-true");
    } else if eq_ic(s, b"OFF") {
        assert!(r == Ok(false), "C08/bool::try_from/OFF-any-case-is-false");
    } else {
        assert!(r == Err(err(ErrorCode::IllegalParameterValue)), "C08/bool::try_from/other-character-data-is-224");
    }
}

#[kani::proof]
#[kani::unwind(3)]
pub fn bool_other() {
    let p: [u8; 4] = kani::any();
    let k: u8 = kani::any();
    kani::assume(k < 5);
    let tok = match k {
        0 => Token::DecimalNumericSuffixProgramData(&p, b"V"),
        1 => Token::StringProgramData(&p),
        2 => Token::ArbitraryBlockData(&p),
        3 => Token::NonDecimalNumericProgramData(kani::any()),
        _ => Token::ExpressionProgramData(&p),
    };
    assert!(bool::try_from(tok) == Err(err(ErrorCode::DataTypeError)), "C08/bool::try_from/other-elements-are-104");
}

fn same(a: &[u8], b: &[u8]) -> bool {
    a.as_ptr() == b.as_ptr() && a.len() == b.len()
}

/// Accept matrix for the slice-like targets: exactly the documented element kind(s) are
/// accepted, the payload handed out IS the token's payload, everything else is -104.
#[kani::proof]
#[kani::unwind(6)]
pub fn accept_matrix() {
    let p: [u8; 3] = kani::any();
    let s = any_prefix(&p);
    let k: u8 = kani::any();
    kani::assume(k < 7);
    // branch first: the token kind is a constant on each path
    macro_rules! row {
        ($tok:expr, $str_ok:expr, $arb_ok:expr, $chr_ok:expr, $expr_ok:expr) => {{
            let tok = $tok;
            let r = <&[u8]>::try_from(tok);
            if $str_ok { assert!(match r { Ok(x) => same(x, s), _ => false }, "C08/<&[u8]>::try_from/string-data-gives-its-payload") } else { assert!(r == Err(err(ErrorCode::DataTypeError)), "C08/<&[u8]>::try_from/only-string-data") }
            let r = Arbitrary::try_from(tok);
            if $arb_ok { assert!(match r { Ok(x) => same(x.0, s), _ => false }, "C08/Arbitrary::try_from/block-data-gives-its-payload") } else { assert!(r == Err(err(ErrorCode::DataTypeError)), "C08/Arbitrary::try_from/only-block-data") }
            let r = Character::try_from(tok);
            if $chr_ok { assert!(match r { Ok(x) => same(x.0, s), _ => false }, "C08/Character::try_from/character-data-gives-its-payload") } else { assert!(r == Err(err(ErrorCode::DataTypeError)), "C08/Character::try_from/only-character-data") }
            let r = Expression::try_from(tok);
            if $expr_ok { assert!(match r { Ok(x) => same(x.0, s), _ => false }, "C08/Expression::try_from/expression-data-gives-its-payload") } else { assert!(r == Err(err(ErrorCode::DataTypeError)), "C08/Expression::try_from/only-expression-data") }
            let r = NumericList::try_from(tok);
            if $expr_ok { assert!(r.is_ok(), "C08/NumericList::try_from/expression-data-accepted") } else { assert!(match r { Err(e) => e == err(ErrorCode::DataTypeError), _ => false }, "C08/NumericList::try_from/only-expression-data") }
            let r = ChannelList::try_from(tok);
            if $expr_ok {
                if s.len() > 0 && s[0] == b'@' {
                    assert!(r.is_ok(), "C08/ChannelList::try_from/expression-starting-with-@-accepted")
                } else {
                    assert!(match r { Err(e) => e.get_code() == -171, _ => false }, "C08/ChannelList::try_from/expression-without-@-is-171")
                }
            } else {
                assert!(match r { Err(e) => e == err(ErrorCode::DataTypeError), _ => false }, "C08/ChannelList::try_from/only-expression-data")
            }
        }};
    }
    match k {
        0 => row!(Token::CharacterProgramData(s), false, false, true, false),
        1 => row!(Token::DecimalNumericProgramData(s), false, false, false, false),
        2 => row!(Token::DecimalNumericSuffixProgramData(s, b"V"), false, false, false, false),
        3 => row!(Token::NonDecimalNumericProgramData(kani::any()), false, false, false, false),
        4 => row!(Token::StringProgramData(s), true, false, false, false),
        5 => row!(Token::ArbitraryBlockData(s), false, true, false, false),
        _ => row!(Token::ExpressionProgramData(s), false, false, false, true),
    }
}

/// &str: string or block data, UTF-8 checked (-150 otherwise... reported as a command error).
#[kani::proof]
#[kani::unwind(6)]
pub fn str_accepts_string_and_block() {
    let p: [u8; 2] = kani::any();
    let s = any_prefix(&p);
    let k: u8 = kani::any();
    kani::assume(k < 7);
    let tok = match k {
        0 => Token::CharacterProgramData(s),
        1 => Token::DecimalNumericProgramData(s),
        2 => Token::DecimalNumericSuffixProgramData(s, b"V"),
        3 => Token::NonDecimalNumericProgramData(7),
        4 => Token::StringProgramData(s),
        5 => Token::ArbitraryBlockData(s),
        _ => Token::ExpressionProgramData(s),
    };
    let r = <&str>::try_from(tok);
    if k == 4 || k == 5 {
        let mut ascii = true;
        let mut i = 0;
        while i < s.len() {
            if s[i] >= 0x80 {
                ascii = false;
            }
            i += 1;
        }
        match r {
            Ok(x) => assert!(same(x.as_bytes(), s), "C08/<&str>::try_from/gives-the-payload"),
            Err(e) => {
                assert!(e == err(ErrorCode::StringDataError), "C08/<&str>::try_from/invalid-utf8-is-150");
                assert!(!ascii, "C08/<&str>::try_from/ascii-payload-is-accepted");
            }
        }
    } else {
        assert!(r == Err(err(ErrorCode::DataTypeError)), "C08/<&str>::try_from/only-string-or-block-data");
    }
}
