//! C02 — compound-command header paths resolve to exactly the SCPI-designated handler.
//! `Node::exec` (the real recursive function) is run from every branch of a family of concrete
//! trees against a symbolic header script; `Token::match_program_header` is replaced by its
//! CONTRACT — an arbitrary symbolic relation REL[token][node] constrained only by tree
//! well-formedness (sibling mnemonics pairwise non-matching; the anonymous default leaf matches
//! nothing) — so exec is proved for EVERY mnemonic relation, and C03 proves separately that the
//! real matcher is the SCPI relation.  The postcondition is the reference resolver
//! `spec_resolve` (SCPI-99 Vol.1 6.2.4, 5.1 default nodes).  The per-unit start level
//! (root / previous level / `*` commands) is `run_tokens`' clause, proved in the C05 module.
//! BOUNDED: tree family x header scripts of H tokens.
use super::kenv::*;
use super::kscript::*;
use scpi::error::{Error, ErrorCode, Result};
use scpi::parser::response::{Formatter, ResponseUnit};
use scpi::parser::tokenizer::{Token, Tokenizer};
use scpi::tree::prelude::*;

pub const NN: usize = 10; // node ids 0..NN (0 = root)
pub const HT: usize = KMAX;
pub static mut REL: [[bool; NN]; HT] = [[false; NN]; HT];
/// Mnemonic payloads: first byte = token id, then arbitrary bytes; the LENGTH is symbolic
/// (1..=12) so that nothing in exec may depend on it other than through the matcher.
pub static mut IDBUF: [[u8; 12]; HT] = [[0; 12]; HT];
pub static mut IDLEN: [usize; HT] = [1; HT];

fn node_id(name: &[u8]) -> usize {
    if name.is_empty() {
        0
    } else {
        (name[0] - b'A') as usize + 1
    }
}

/// Contract stub of `Token::match_program_header`.
pub fn stub_match<'a>(tok: &Token<'a>, mnemonic: &'a [u8]) -> bool
where
    'a: 'a,
{
    match tok {
        Token::ProgramMnemonic(p) | Token::CharacterProgramData(p) => {
            if mnemonic.is_empty() || p.is_empty() {
                false
            } else {
                unsafe { REL[p[0] as usize][node_id(mnemonic)] }
            }
        }
        _ => false,
    }
}

/// Recording handler.
pub struct Rec(pub u8);
pub struct RDev {
    pub calls: u8,
    pub who: u8,
    pub query: bool,
}
impl Device for RDev {
    fn handle_error(&mut self, _e: Error) {}
}
impl Command<RDev> for Rec {
    fn event(&self, d: &mut RDev, _c: &mut Context, _p: Parameters) -> Result<()> {
        d.calls += 1;
        d.who = self.0;
        d.query = false;
        Ok(())
    }
    fn query(&self, d: &mut RDev, _c: &mut Context, _p: Parameters, _r: ResponseUnit) -> Result<()> {
        d.calls += 1;
        d.who = self.0;
        d.query = true;
        Ok(())
    }
}

// ---------------------------------------------------------------- tree family
// Tree 1 (the crate documentation's example):  *COM(A)  TODO(B)  BRANch(C){ [DEFault](D)  CHILd(E) }
pub const TREE1: Node<RDev> = Branch {
    name: b"",
    default: false,
    sub: &[
        Leaf { name: b"A", default: false, handler: &Rec(1) },
        Leaf { name: b"B", default: false, handler: &Rec(2) },
        Branch {
            name: b"C",
            default: false,
            sub: &[Leaf { name: b"D", default: true, handler: &Rec(4) }, Leaf { name: b"E", default: false, handler: &Rec(5) }],
        },
    ],
};
// Tree 2 (default branch inside a branch, anonymous default leaf, depth 3):
//   INIT(A){ [IMM](B){ [ALL](C)  SEQ(D) }  CONT(E) }   MEAS(F) => handler { VOLT(G) }   ABOR(H)
pub const TREE2: Node<RDev> = Branch {
    name: b"",
    default: false,
    sub: &[
        Branch {
            name: b"A",
            default: false,
            sub: &[
                Branch {
                    name: b"B",
                    default: true,
                    sub: &[Leaf { name: b"C", default: true, handler: &Rec(3) }, Leaf { name: b"D", default: false, handler: &Rec(4) }],
                },
                Leaf { name: b"E", default: false, handler: &Rec(5) },
            ],
        },
        Branch {
            name: b"F",
            default: false,
            sub: &[Leaf { name: b"", default: true, handler: &Rec(6) }, Leaf { name: b"G", default: false, handler: &Rec(7) }],
        },
        Leaf { name: b"H", default: false, handler: &Rec(8) },
    ],
};

/// Index-encoded copy of a tree for the reference resolver.
#[derive(Clone, Copy)]
pub struct TNode {
    pub leaf: bool,
    pub default: bool,
    pub anon: bool,
    pub handler: u8,
    pub children: [u8; 3], // node ids, 0 = none
}
const NONE: TNode = TNode { leaf: true, default: false, anon: false, handler: 0, children: [0; 3] };
// ids: root 0, A1 B2 C3 D4 E5 (tree 1)
pub const T1: [TNode; NN] = [
    TNode { leaf: false, default: false, anon: false, handler: 0, children: [1, 2, 3] },
    TNode { leaf: true, default: false, anon: false, handler: 1, children: [0; 3] },
    TNode { leaf: true, default: false, anon: false, handler: 2, children: [0; 3] },
    TNode { leaf: false, default: false, anon: false, handler: 0, children: [4, 5, 0] },
    TNode { leaf: true, default: true, anon: false, handler: 4, children: [0; 3] },
    TNode { leaf: true, default: false, anon: false, handler: 5, children: [0; 3] },
    NONE,
    NONE,
    NONE,
    NONE,
];
// ids: root 0, A1 B2 C3 D4 E5 F6 G7 H8, anonymous leaf 9
pub const T2: [TNode; NN] = [
    TNode { leaf: false, default: false, anon: false, handler: 0, children: [1, 6, 8] },
    TNode { leaf: false, default: false, anon: false, handler: 0, children: [2, 5, 0] },
    TNode { leaf: false, default: true, anon: false, handler: 0, children: [3, 4, 0] },
    TNode { leaf: true, default: true, anon: false, handler: 3, children: [0; 3] },
    TNode { leaf: true, default: false, anon: false, handler: 4, children: [0; 3] },
    TNode { leaf: true, default: false, anon: false, handler: 5, children: [0; 3] },
    TNode { leaf: false, default: false, anon: false, handler: 0, children: [9, 7, 0] },
    TNode { leaf: true, default: false, anon: false, handler: 7, children: [0; 3] },
    TNode { leaf: true, default: false, anon: false, handler: 8, children: [0; 3] },
    TNode { leaf: true, default: true, anon: true, handler: 6, children: [0; 3] },
];

// header token codes
// 0 ':'  1 '?'  2 ';'  3 header separator  5 mnemonic  7 data  9 lexer error  11 end
fn hdecode(code: u8, pos: usize) -> Item {
    match code {
        0 => Some(Ok(Token::HeaderMnemonicSeparator)),
        1 => Some(Ok(Token::HeaderQuerySuffix)),
        2 => Some(Ok(Token::ProgramMessageUnitSeparator)),
        3 => Some(Ok(Token::ProgramHeaderSeparator)),
        5 => Some(Ok(Token::ProgramMnemonic(unsafe { &IDBUF[pos][..IDLEN[pos]] }))),
        7 => Some(Ok(Token::NonDecimalNumericProgramData(7))),
        9 => Some(Err(ErrorCode::InvalidSeparator)),
        _ => None,
    }
}

pub struct Res {
    pub err: i16,
    pub handler: u8,
    pub query: bool,
    pub level: usize, // node id the level variable points to afterwards (only meaningful if err == 0)
    pub level_set: bool,
    pub pos: usize, // tokens consumed
}

fn code_at(codes: &[u8; HT], p: usize) -> u8 {
    if p < HT {
        codes[p]
    } else {
        11
    }
}

/// Reference resolver (SCPI-99 Vol.1 6.2.4 / 5.1): from node `n`, header tokens at `p`.
/// `depth` bounds the recursion by the tree depth.
fn spec_resolve(t: &[TNode; NN], rel: &[[bool; NN]; HT], codes: &[u8; HT], n: usize, p: usize, depth: u8, out: &mut Res) {
    if depth == 0 {
        out.err = -300;
        return;
    }
    let c = code_at(codes, p);
    if c == 9 {
        out.err = -103;
        return;
    }
    if t[n].leaf {
        match c {
            3 | 2 | 11 => {
                out.handler = t[n].handler;
                out.query = false;
                out.pos = if c == 3 { p + 1 } else { p };
            }
            1 => {
                out.handler = t[n].handler;
                out.query = true;
                out.pos = if code_at(codes, p + 1) == 3 { p + 2 } else { p + 1 };
            }
            0 | 5 => out.err = -113,
            _ => out.err = -102,
        }
        return;
    }
    match c {
        0 | 5 => {
            let mp = if c == 0 { p + 1 } else { p };
            let mc = code_at(codes, mp);
            if mc == 9 {
                out.err = -103;
                return;
            }
            if mc != 5 {
                out.err = -110;
                return;
            }
            // the level moves to the branch in which the mnemonic is looked up
            out.level = n;
            out.level_set = true;
            let mut i = 0;
            while i < 3 {
                let ch = t[n].children[i] as usize;
                if ch != 0 && !t[ch].anon && rel[mp][ch] {
                    spec_resolve(t, rel, codes, ch, mp + 1, depth - 1, out);
                    return;
                }
                i += 1;
            }
            // not a child: an omitted default branch?
            let mut i = 0;
            while i < 3 {
                let ch = t[n].children[i] as usize;
                if ch != 0 && !t[ch].leaf && t[ch].default {
                    spec_resolve(t, rel, codes, ch, mp, depth - 1, out);
                    return;
                }
                i += 1;
            }
            out.err = -113;
        }
        3 | 2 | 1 | 11 => {
            // header ends on a branch: its default leaf, else its default branch
            let mut i = 0;
            while i < 3 {
                let ch = t[n].children[i] as usize;
                if ch != 0 && t[ch].leaf && t[ch].default {
                    spec_resolve(t, rel, codes, ch, p, depth - 1, out);
                    return;
                }
                i += 1;
            }
            let mut i = 0;
            while i < 3 {
                let ch = t[n].children[i] as usize;
                if ch != 0 && !t[ch].leaf && t[ch].default {
                    spec_resolve(t, rel, codes, ch, p, depth - 1, out);
                    return;
                }
                i += 1;
            }
            out.err = -113;
        }
        _ => out.err = -102,
    }
}

fn setup_script<const H: usize>() -> [u8; HT] {
    unsafe {
        let mut i = 0;
        while i < H {
            IDBUF[i] = kani::any();
            IDBUF[i][0] = i as u8;
            let l: usize = kani::any();
            kani::assume(l >= 1 && l <= 12);
            IDLEN[i] = l;
            i += 1;
        }
    }
    let mut codes = [11u8; HT];
    let mut script: [Item; HT] = [None; HT];
    let mut i = 0;
    while i < H {
        let c: u8 = kani::any();
        kani::assume(c == 0 || c == 1 || c == 2 || c == 3 || c == 5 || c == 7 || c == 9 || c == 11);
        codes[i] = c;
        i += 1;
    }
    let mut i = 1;
    while i < H {
        kani::assume(codes[i - 1] != 11 || codes[i] == 11);
        i += 1;
    }
    let mut i = 0;
    while i < HT {
        script[i] = hdecode(codes[i], i);
        i += 1;
    }
    set_script_arr(script);
    codes
}

/// tree_wf: siblings pairwise non-matching for every token.
fn any_relation(t: &[TNode; NN]) -> [[bool; NN]; HT] {
    let rel: [[bool; NN]; HT] = kani::any();
    let mut p = 0;
    while p < HT {
        let mut n = 0;
        while n < NN {
            if !t[n].leaf {
                let a = t[n].children[0] as usize;
                let b = t[n].children[1] as usize;
                let c = t[n].children[2] as usize;
                let ma = a != 0 && rel[p][a];
                let mb = b != 0 && rel[p][b];
                let mc = c != 0 && rel[p][c];
                kani::assume(!(ma && mb) && !(ma && mc) && !(mb && mc));
            }
            n += 1;
        }
        p += 1;
    }
    unsafe { REL = rel };
    rel
}

fn check_exec(tree: &'static Node<'static, RDev>, start: &'static Node<'static, RDev>, start_id: usize, t: &[TNode; NN], rel: &[[bool; NN]; HT], codes: &[u8; HT], depth: u8) {
    let mut exp = Res { err: 0, handler: 0, query: false, level: 0, level_set: false, pos: 0 };
    spec_resolve(t, rel, codes, start_id, 0, depth, &mut exp);
    let mut d = RDev { calls: 0, who: 0, query: false };
    let mut ctx = Context::default();
    let mut out = alloc::vec::Vec::<u8>::new();
    let mut toks = Tokenizer::new(b"").peekable();
    let mut level: &Node<RDev> = tree;
    kani::cover!(exp.err == 0 && exp.query);
    kani::cover!(exp.err == -113);
    kani::cover!(exp.err == 0 && exp.level_set && exp.level != 0);
    let r = start.exec(&mut level, &mut d, &mut ctx, &mut toks, &mut out);
    if exp.err != 0 {
        assert!(is_err_code(&r, exp.err), "C02/Node::exec/header-that-designates-no-node-fails-with-113-(other-malformed-headers-with-their-own-code)");
        assert!(d.calls == 0, "C02/Node::exec/no-handler-is-invoked-for-an-undefined-or-malformed-header");
    } else {
        assert!(r.is_ok(), "C02/Node::exec/designated-header-succeeds");
        assert!(d.calls == 1, "C02/Node::exec/exactly-one-handler-invocation-per-unit");
        assert!(d.who == exp.handler, "C02/Node::exec/invokes-the-SCPI-designated-handler");
        assert!(d.query == exp.query, "C02/Node::exec/query-form-iff-the-header-carries-a-question-mark");
        let lid = node_id(level.name());
        if exp.level_set {
            assert!(lid == exp.level, "C02/Node::exec/level-is-that-of-the-last-explicitly-named-node");
        } else {
            assert!(core::ptr::eq(level, tree), "C02/Node::exec/level-unchanged-when-no-node-is-named");
        }
        // pos() counts one token of look-ahead at most
        assert!(pos() == exp.pos || pos() == exp.pos + 1, "C02/Node::exec/consumes-exactly-the-header");
    }
}

macro_rules! exec_harness {
    ($name:ident, $tree:ident, $tab:ident, $h:expr, $depth:expr, $unwind:expr, $start:expr, $sid:expr) => {
        #[kani::proof]
        #[kani::unwind($unwind)]
        #[kani::stub(<crate::parser::tokenizer::Tokenizer as core::iter::Iterator>::next, stub_next)]
        #[kani::stub(crate::parser::tokenizer::Token::match_program_header, stub_match)]
        pub fn $name() {
            let tree: &'static Node<'static, RDev> = &$tree;
            let codes = setup_script::<$h>();
            let rel = any_relation(&$tab);
            let start: &'static Node<'static, RDev> = $start(tree);
            check_exec(tree, start, $sid, &$tab, &rel, &codes, $depth);
        }
    };
}

fn root<'a>(t: &'a Node<'a, RDev>) -> &'a Node<'a, RDev> {
    t
}
fn child2<'a>(t: &'a Node<'a, RDev>) -> &'a Node<'a, RDev> {
    match t {
        Node::Branch { sub, .. } => &sub[2],
        _ => t,
    }
}
fn child0<'a>(t: &'a Node<'a, RDev>) -> &'a Node<'a, RDev> {
    match t {
        Node::Branch { sub, .. } => &sub[0],
        _ => t,
    }
}
fn child1<'a>(t: &'a Node<'a, RDev>) -> &'a Node<'a, RDev> {
    match t {
        Node::Branch { sub, .. } => &sub[1],
        _ => t,
    }
}

exec_harness!(tree1_root_h3, TREE1, T1, 3, 4, 12, root, 0);
exec_harness!(tree1_root_h5, TREE1, T1, 5, 4, 12, root, 0);
exec_harness!(tree1_branch_h3, TREE1, T1, 3, 4, 12, child2, 3);
exec_harness!(tree2_root_h3, TREE2, T2, 3, 5, 12, root, 0);
exec_harness!(tree2_root_h5, TREE2, T2, 5, 5, 12, root, 0);
exec_harness!(tree2_init_h3, TREE2, T2, 3, 5, 12, child0, 1);
exec_harness!(tree2_meas_h3, TREE2, T2, 3, 5, 12, child1, 6);
