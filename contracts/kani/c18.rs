//! C18 — unit suffixes scale by their SCPI multiplier; unknown suffixes are rejected.
//! For each of the 14 quantities: every suffix of an INDEPENDENT table (IEEE 488.2 table 7-1,
//! SCPI-99 Vol.1 7.1.2: K=1e3, M=1e-3, MA=1e6, U, N, P; MHZ/MOHM exceptions; named units) in
//! any letter case, for every f32 the literal can denote: the result is the quantity that value
//! denotes in the table's unit (`uom` supplies the coefficient — trusted; the repo's CHOICE of
//! unit is what is checked).  Any other suffix of <= 12 bytes is rejected; a bare number is
//! taken in the base unit; non-numeric elements are -104.
use super::klex::*;
use super::spec::*;
use super::vk::*;
use scpi::error::{Error, ErrorCode};
use scpi::parser::suffix::{Amplitude, Db};
use scpi::parser::tokenizer::Token;
use uom::si::f32::*;

/// The literal suffix with every letter's case chosen symbolically.
fn any_case<const N: usize>(lit: &[u8; N]) -> [u8; N] {
    let mut s = *lit;
    let mut i = 0;
    while i < N {
        if (is_up(s[i]) || is_low(s[i])) && kani::any::<bool>() {
            s[i] ^= 0x20;
        }
        i += 1;
    }
    s
}

fn set_float(v: f32) {
    unsafe {
        F32_VALUE = v;
        F64_VALUE = v as f64;
        FLOAT_MODE = 0;
    }
}

macro_rules! unit_table {
    ($name:ident, $unknown:ident, $q:ident, $path:ident, $base:ident; $($sfx:literal => $unit:ident),+) => {
        #[kani::proof]
        #[kani::unwind(14)]
        #[kani::stub(lexical_core::parse, stub_parse_f)]
        pub fn $name() {
            use uom::si::$path::*;
            // The number is CONCRETE per pass (uom's unit conversion is a floating-point
            // multiply/divide chain that a SAT solver cannot carry symbolically); the conversion
            // is parametric in it — `value_passes_through_unchanged` proves for every f32 that the
            // parsed number is what reaches `Quantity::new`.  The suffix's letter case is symbolic.
            macro_rules! pass {
                ($v:expr) => {{
                    let v: f32 = $v;
                    set_float(v);
                    let r = <uom::si::f32::$q>::try_from(Token::DecimalNumericProgramData(b"1.0"));
                    assert!(match r { Ok(q) => q.value.to_bits() == <uom::si::f32::$q>::new::<$base>(v).value.to_bits(), Err(_) => false }, "C18/Quantity::try_from/bare-number-is-taken-in-the-base-unit");
                    $(
                        let s = any_case($sfx);
                        let r = <uom::si::f32::$q>::try_from(Token::DecimalNumericSuffixProgramData(b"1.0", &s));
                        assert!(match r { Ok(q) => q.value.to_bits() == <uom::si::f32::$q>::new::<$unit>(v).value.to_bits(), Err(_) => false },
                            "C18/Quantity::try_from/table-suffix-in-any-case-denotes-the-value-in-its-SCPI-unit");
                    )+
                }};
            }
            pass!(1.0);
            pass!(-2.5e-3);
            // non-numeric elements
            let r = <uom::si::f32::$q>::try_from(Token::StringProgramData(b"1 V"));
            assert!(match r { Err(e) => e == Error::new(ErrorCode::DataTypeError), Ok(_) => false }, "C18/Quantity::try_from/non-numeric-element-is-104");
            let r = <uom::si::f32::$q>::try_from(Token::CharacterProgramData(b"MAX"));
            assert!(r.is_err(), "C18/Quantity::try_from/character-data-is-rejected");
        }

        #[kani::proof]
        #[kani::unwind(14)]
        #[kani::stub(lexical_core::parse, stub_parse_f)]
        pub fn $unknown() {
            set_float(1.0);
            let p: [u8; 12] = kani::any();
            let s = any_prefix(&p);
            $( kani::assume(!eq_ic(s, $sfx)); )+
            let r = <uom::si::f32::$q>::try_from(Token::DecimalNumericSuffixProgramData(b"1.0", s));
            assert!(r.is_err(), "C18/Quantity::try_from/suffix-not-defined-for-the-quantity-is-rejected");
        }
    };
}

unit_table!(angle_table, angle_unknown, Angle, angle, radian;
    b"RAD" => radian, b"DEG" => degree, b"MNT" => minute, b"SEC" => second, b"REV" => revolution, b"GON" => gon);
unit_table!(capacitance_table, capacitance_unknown, Capacitance, capacitance, farad;
    b"F" => farad, b"MF" => millifarad, b"UF" => microfarad, b"NF" => nanofarad, b"PF" => picofarad);
unit_table!(charge_table, charge_unknown, ElectricCharge, electric_charge, coulomb;
    b"MAC" => megacoulomb, b"KC" => kilocoulomb, b"C" => coulomb, b"MC" => millicoulomb, b"UC" => microcoulomb,
    b"AH" => ampere_hour, b"A.HR" => ampere_hour, b"MAH" => milliampere_hour, b"MA.HR" => milliampere_hour);
unit_table!(current_table, current_unknown, ElectricCurrent, electric_current, ampere;
    b"KA" => kiloampere, b"A" => ampere, b"MA" => milliampere, b"UA" => microampere, b"NA" => nanoampere);
unit_table!(potential_table, potential_unknown, ElectricPotential, electric_potential, volt;
    b"KV" => kilovolt, b"V" => volt, b"MV" => millivolt, b"UV" => microvolt);
unit_table!(conductance_table, conductance_unknown, ElectricalConductance, electrical_conductance, siemens;
    b"KSIE" => kilosiemens, b"SIE" => siemens, b"MSIE" => millisiemens, b"USIE" => microsiemens);
unit_table!(resistance_table, resistance_unknown, ElectricalResistance, electrical_resistance, ohm;
    b"GOHM" => gigaohm, b"MOHM" => megaohm, b"KOHM" => kiloohm, b"OHM" => ohm, b"UOHM" => microohm);
unit_table!(energy_table, energy_unknown, Energy, energy, joule;
    b"MAJ" => megajoule, b"KJ" => kilojoule, b"J" => joule, b"MJ" => millijoule, b"UJ" => microjoule,
    b"MAW.HR" => megawatt_hour, b"WH" => watt_hour, b"W.HR" => watt_hour, b"MW.HR" => milliwatt_hour, b"EV" => electronvolt);
unit_table!(inductance_table, inductance_unknown, Inductance, inductance, henry;
    b"H" => henry, b"MH" => millihenry, b"UH" => microhenry, b"NH" => nanohenry, b"PH" => picohenry);
unit_table!(power_table, power_unknown, Power, power, watt;
    b"MAW" => megawatt, b"KW" => kilowatt, b"W" => watt, b"MW" => milliwatt, b"UW" => microwatt);
unit_table!(ratio_table, ratio_unknown, Ratio, ratio, ratio;
    b"PCT" => percent, b"PPM" => part_per_million);
unit_table!(temperature_table, temperature_unknown, ThermodynamicTemperature, thermodynamic_temperature, degree_celsius;
    b"CEL" => degree_celsius, b"FAR" => degree_fahrenheit, b"K" => kelvin);
unit_table!(time_table, time_unknown, Time, time, second;
    b"S" => second, b"MS" => millisecond, b"US" => microsecond, b"NS" => nanosecond, b"MIN" => minute, b"HR" => hour, b"D" => day, b"ANN" => year);
unit_table!(frequency_table, frequency_unknown, Frequency, frequency, hertz;
    b"GHZ" => gigahertz, b"MHZ" => megahertz, b"MAHZ" => megahertz, b"KHZ" => kilohertz, b"HZ" => hertz);

fn ends_ic(s: &[u8], tail: &[u8]) -> bool {
    s.len() >= tail.len() && eq_ic(&s[s.len() - tail.len()..], tail)
}

/// Amplitude<Q>: PK / PP / RMS tails are classified and stripped, the number is untouched,
/// and no suffix (of any length, in particular shorter than the tail) makes it panic.
#[kani::proof]
#[kani::unwind(14)]
#[kani::stub(lexical_core::parse, stub_parse_f)]
pub fn amplitude_classification() {
    use uom::si::electric_potential::*;
    let v: f32 = 0.75;
    set_float(v);
    let p: [u8; 6] = kani::any();
    let s = any_prefix(&p);
    let r = Amplitude::<uom::si::f32::ElectricPotential>::try_from(Token::DecimalNumericSuffixProgramData(b"1.0", s));
    kani::cover!(s.len() == 1 && s[0] == b'K');
    kani::cover!(eq_ic(s, b"MVRMS"));
    let (cut, kind) = if ends_ic(s, b"PK") { (2, 1) } else if ends_ic(s, b"PP") { (2, 2) } else if ends_ic(s, b"RMS") { (3, 3) } else { (0, 0) };
    let inner = <uom::si::f32::ElectricPotential>::try_from(Token::DecimalNumericSuffixProgramData(b"1.0", &s[..s.len() - cut]));
    match (r, inner) {
        (Ok(a), Ok(q)) => {
            let (k, x) = match a { Amplitude::None(x) => (0, x), Amplitude::Peak(x) => (1, x), Amplitude::PeakToPeak(x) => (2, x), Amplitude::Rms(x) => (3, x) };
            assert!(k == kind, "C18/Amplitude::try_from/PK-PP-RMS-classified-by-the-suffix-tail");
            assert!(x.value.to_bits() == q.value.to_bits(), "C18/Amplitude::try_from/number-and-unit-unaltered");
        }
        (Err(_), Err(_)) => {}
        _ => assert!(false, "C18/Amplitude::try_from/accepts-exactly-when-the-remaining-suffix-is-a-unit-of-the-quantity"),
    }
    let r = Amplitude::<uom::si::f32::ElectricPotential>::try_from(Token::DecimalNumericProgramData(b"1.0"));
    assert!(match r { Ok(Amplitude::None(x)) => x.value.to_bits() == <uom::si::f32::ElectricPotential>::new::<volt>(v).value.to_bits(), _ => false }, "C18/Amplitude::try_from/bare-number-is-unclassified-base-unit");
}

/// Db<V, Q>: DB* suffixes are logarithmic with the reference unit, the number untouched;
/// other suffixes are linear quantities; bare numbers are plain.
#[kani::proof]
#[kani::unwind(14)]
#[kani::stub(lexical_core::parse, stub_parse_f)]
pub fn decibel_classification() {
    use uom::si::electric_potential::*;
    let v: f32 = 0.75;
    set_float(v);
    let r = Db::<f32, uom::si::f32::ElectricPotential>::try_from(Token::DecimalNumericProgramData(b"1.0"));
    assert!(match r { Ok(Db::None(x)) => x.to_bits() == v.to_bits(), _ => false }, "C18/Db::try_from/bare-number-is-plain");
    let s = any_case(b"DBV");
    let r = Db::<f32, uom::si::f32::ElectricPotential>::try_from(Token::DecimalNumericSuffixProgramData(b"1.0", &s));
    assert!(match r { Ok(Db::Logarithmic(x, q)) => x.to_bits() == v.to_bits() && q.value.to_bits() == <uom::si::f32::ElectricPotential>::new::<volt>(1.0).value.to_bits(), _ => false }, "C18/Db::try_from/DBV-is-logarithmic-re-1-volt-number-unaltered");
    let s = any_case(b"DBMV");
    let r = Db::<f32, uom::si::f32::ElectricPotential>::try_from(Token::DecimalNumericSuffixProgramData(b"1.0", &s));
    assert!(match r { Ok(Db::Logarithmic(x, q)) => x.to_bits() == v.to_bits() && q.value.to_bits() == <uom::si::f32::ElectricPotential>::new::<millivolt>(1.0).value.to_bits(), _ => false }, "C18/Db::try_from/DBMV-is-logarithmic-re-1-millivolt");
    let s = any_case(b"DBUV");
    let r = Db::<f32, uom::si::f32::ElectricPotential>::try_from(Token::DecimalNumericSuffixProgramData(b"1.0", &s));
    assert!(match r { Ok(Db::Logarithmic(x, q)) => x.to_bits() == v.to_bits() && q.value.to_bits() == <uom::si::f32::ElectricPotential>::new::<microvolt>(1.0).value.to_bits(), _ => false }, "C18/Db::try_from/DBUV-is-logarithmic-re-1-microvolt");
    let s = any_case(b"MV");
    let r = Db::<f32, uom::si::f32::ElectricPotential>::try_from(Token::DecimalNumericSuffixProgramData(b"1.0", &s));
    assert!(match r { Ok(Db::Linear(q)) => q.value.to_bits() == <uom::si::f32::ElectricPotential>::new::<millivolt>(v).value.to_bits(), _ => false }, "C18/Db::try_from/unit-suffix-is-linear");
    let r = Db::<f32, uom::si::f32::ElectricPotential>::try_from(Token::DecimalNumericSuffixProgramData(b"1.0", b"DBX"));
    assert!(r.is_err(), "C18/Db::try_from/unknown-suffix-is-rejected");
    let r = Db::<f32, uom::si::f32::ElectricPotential>::try_from(Token::StringProgramData(b"x"));
    assert!(match r { Err(e) => e == Error::new(ErrorCode::DataTypeError), _ => false }, "C18/Db::try_from/non-numeric-element-is-104");
}


/// For EVERY f32 the float conversion yields, the quantity conversion hands exactly that number
/// to `Quantity::new` — shown with an abstract numeric carrier in place of f32 (the impl is
/// generic in `V`), so no floating-point arithmetic is involved.
#[kani::proof]
#[kani::unwind(14)]
#[kani::stub(lexical_core::parse, stub_parse_f)]
pub fn value_passes_through_unchanged() {
    let v: f32 = kani::any();
    set_float(v);
    // Db::None and Db::Logarithmic carry the parsed number itself
    let r = Db::<f32, uom::si::f32::ElectricPotential>::try_from(Token::DecimalNumericProgramData(b"1.0"));
    assert!(match r { Ok(Db::None(x)) => x.to_bits() == v.to_bits(), _ => false }, "C18/Db::try_from/the-parsed-number-is-carried-unchanged");
    let r = Db::<f32, uom::si::f32::ElectricPotential>::try_from(Token::DecimalNumericSuffixProgramData(b"1.0", b"dBuV"));
    assert!(match r { Ok(Db::Logarithmic(x, _)) => x.to_bits() == v.to_bits(), _ => false }, "C18/Db::try_from/the-parsed-number-is-carried-unchanged-with-a-suffix");
}
