//! Contract-level stand-in for the lexer: `<Tokenizer as Iterator>::next` is replaced by a
//! scripted token source.  Callers (Parameters, run_tokens, exec, handlers) are verified
//! against "any token sequence", which over-approximates every stream the real lexer can
//! produce; the lexer itself is verified separately (C01/C04).
use scpi::error::ErrorCode;
use scpi::parser::tokenizer::{Token, Tokenizer};

pub const KMAX: usize = 8;
pub type Item = Option<Result<Token<'static>, ErrorCode>>;
pub static mut SCRIPT: [Item; KMAX] = [None; KMAX];
pub static mut POS: usize = 0;
/// Backing store for symbolic token payloads.
pub static mut PAYLOAD: [[u8; 12]; KMAX] = [[0; 12]; KMAX];

/// Install a script (loop-free: harness unwind bounds need not cover KMAX).
pub fn set_script(items: &[Item]) {
    let mut a: [Item; KMAX] = [None; KMAX];
    macro_rules! cp {
        ($($i:expr),*) => { $( if items.len() > $i { a[$i] = items[$i]; } )* };
    }
    cp!(0, 1, 2, 3, 4, 5, 6, 7);
    unsafe {
        SCRIPT = a;
        POS = 0;
    }
}

/// Loop-free variant.
pub fn set_script_arr(items: [Item; KMAX]) {
    unsafe {
        SCRIPT = items;
        POS = 0;
    }
}

pub fn pos() -> usize {
    unsafe { POS }
}

/// Stub for `<Tokenizer as Iterator>::next`.
pub fn stub_next<'a>(_t: &mut Tokenizer<'a>) -> Option<Result<Token<'a>, ErrorCode>>
where
    'a: 'a,
{
    unsafe {
        if POS >= KMAX {
            return None;
        }
        let it = SCRIPT[POS];
        if it.is_some() {
            POS += 1;
        }
        it
    }
}

/// A payload slice with symbolic content and symbolic length 0..=12 stored in slot `i`.
pub fn any_payload(i: usize) -> &'static [u8] {
    unsafe {
        PAYLOAD[i] = kani::any();
        let n: usize = kani::any();
        kani::assume(n <= 12);
        &PAYLOAD[i][..n]
    }
}

/// Any data token (all seven 488.2 data element kinds); payload content symbolic.
pub fn any_data_token(slot: usize) -> Token<'static> {
    let k: u8 = kani::any();
    kani::assume(k < 7);
    match k {
        0 => Token::CharacterProgramData(any_payload(slot)),
        1 => Token::DecimalNumericProgramData(any_payload(slot)),
        2 => Token::DecimalNumericSuffixProgramData(any_payload(slot), b"V"),
        3 => Token::NonDecimalNumericProgramData(kani::any()),
        4 => Token::StringProgramData(any_payload(slot)),
        5 => Token::ArbitraryBlockData(any_payload(slot)),
        _ => Token::ExpressionProgramData(any_payload(slot)),
    }
}

/// Any token the lexer can emit that is not a data element.
pub fn any_nondata_token(slot: usize) -> Token<'static> {
    let k: u8 = kani::any();
    kani::assume(k < 6);
    match k {
        0 => Token::HeaderMnemonicSeparator,
        1 => Token::HeaderQuerySuffix,
        2 => Token::ProgramMessageUnitSeparator,
        3 => Token::ProgramHeaderSeparator,
        4 => Token::ProgramDataSeparator,
        _ => Token::ProgramMnemonic(any_payload(slot)),
    }
}
