//! C05 (with the run_tokens clauses of C02, C06, C10, C11) — units run in order; the first
//! error aborts the message and is reported once.
//!
//! * `Node::run`      : verified with `run_tokens` replaced by its contract (any result):
//!                      hook called exactly once with exactly that error iff Err.  Loop-free.
//! * `Node::run_tokens`: verified with the lexer replaced by a symbolic token script (K tokens)
//!                      and `Node::exec` replaced by its contract: "consumes some tokens of the
//!                      unit but never a `;`, may move the level, may write one response unit,
//!                      returns r_i".  Postcondition = a reference interpreter written from the
//!                      statements of C02/C05/C06/C10.  BOUNDED in K.
//! * `ResponseUnit`   : latch of the first failing write (symbolic failing formatter). Loop-free.
use super::kenv::*;
use super::kscript::*;
use core::iter::Peekable;
use scpi::error::{Error, ErrorCode, Result};
use scpi::parser::response::{Formatter, ResponseData, ResponseUnit};
use scpi::parser::tokenizer::{Token, Tokenizer};
use scpi::tree::prelude::*;

// ------------------------------------------------------------------ Node::run
pub static mut RT_RESULT: u8 = 0;
pub static mut RT_WRITES: bool = false;
/// Contract stub of `Node::run_tokens`: any result; may have produced response bytes.
pub fn stub_run_tokens<'a, D: Device, FMT: Formatter>(
    _this: &Node<'a, D>,
    _device: &mut D,
    _context: &mut Context,
    _tokens: &mut Peekable<Tokenizer>,
    response: &mut FMT,
) -> Result<()>
where
    'a: 'a,
{
    unsafe {
        if RT_WRITES {
            let _ = response.push_byte(b'1');
        }
        if RT_RESULT == 0 {
            Ok(())
        } else {
            Err(small_error(RT_RESULT - 1))
        }
    }
}

struct Never;
impl Command<KD> for Never {}
const T1: Node<KD> = Branch { name: b"", default: false, sub: &[Leaf { name: b"A", default: false, handler: &Never }] };

/// `run` returns exactly what `run_tokens` returned and reports it to the error hook exactly
/// once iff it is an error — also when the response buffer is full or non-empty (run itself
/// must not write anything).
#[kani::proof]
#[kani::unwind(4)]
#[kani::stub(crate::tree::Node::run_tokens, stub_run_tokens)]
pub fn run_reports_exactly_once() {
    let k: u8 = kani::any();
    kani::assume(k <= 4);
    let writes: bool = kani::any();
    let cap: usize = kani::any();
    kani::assume(cap <= 2);
    unsafe {
        RT_RESULT = k;
        RT_WRITES = writes;
    }
    let mut d = KD::new();
    let mut ctx = Context::default();
    let mut out = ArrFmt::new(cap);
    let r = T1.run(b"A", &mut d, &mut ctx, &mut out);
    kani::cover!(k == 0 && writes && cap == 1);
    if k == 0 {
        assert!(r.is_ok(), "C05/Node::run/returns-ok-of-run_tokens");
        assert!(d.hook_calls == 0, "C05/Node::run/error-hook-never-invoked-on-success");
    } else {
        let e = small_error(k - 1);
        assert!(r == Err(e), "C05/Node::run/returns-exactly-the-error");
        assert!(d.hook_calls == 1, "C05/Node::run/error-hook-invoked-exactly-once");
        assert!(d.last == Some(e), "C05/Node::run/error-hook-receives-exactly-that-error");
    }
    assert!(out.len <= 1 && (out.len == 1) == (writes && cap >= 1), "C05/Node::run/writes-nothing-itself");
}

// ------------------------------------------------------------------ Node::run_tokens
pub const UMAX: usize = 3;
pub static mut EXEC_CALLS: usize = 0;
pub static mut EXEC_FROM_ROOT: [bool; UMAX] = [false; UMAX];
pub static mut EXEC_LEVEL_IN: [u8; UMAX] = [0; UMAX];
pub static mut EXEC_POS: [usize; UMAX] = [0; UMAX];
pub static mut EXEC_N: [u8; UMAX] = [0; UMAX]; // tokens this unit's exec consumes (at most)
pub static mut EXEC_R: [u8; UMAX] = [0; UMAX]; // 0 = Ok, k = Err(small_error(k-1))
pub static mut EXEC_Q: [bool; UMAX] = [false; UMAX]; // query: writes one response unit of one byte
pub static mut EXEC_L: [u8; UMAX] = [0; UMAX]; // 0: leave level, 1..=3: move level to child
pub static mut ROOT_PTR: usize = 0;

fn level_of<'a, D>(n: &Node<'a, D>) -> u8 {
    // root is level 0; children are recognised by their one-letter names
    match n.name() {
        b"" => 0,
        b"A" => 1,
        b"B" => 2,
        _ => 3,
    }
}

/// Contract stub of `Node::exec`.
pub fn stub_exec<'a, D: Device, FMT: Formatter>(
    this: &'a Node<'a, D>,
    leaf: &mut &'a Node<'a, D>,
    _device: &mut D,
    _context: &mut Context,
    tokens: &mut Peekable<Tokenizer>,
    response: &mut FMT,
) -> Result<()>
where
    'a: 'a,
{
    unsafe {
        let i = EXEC_CALLS;
        EXEC_CALLS += 1;
        if i >= UMAX {
            return Err(Error::new(ErrorCode::DeviceSpecificError));
        }
        EXEC_FROM_ROOT[i] = level_of(this) == 0;
        EXEC_LEVEL_IN[i] = level_of(this);
        // position of the first token this unit's exec sees (normalise the one-token look-ahead)
        let ahead = tokens.peek().is_some();
        EXEC_POS[i] = if ahead { POS - 1 } else { POS };
        let mut c = 0;
        while c < EXEC_N[i] {
            match tokens.peek() {
                Some(Ok(t)) if !matches!(t, Token::ProgramMessageUnitSeparator) => {
                    tokens.next();
                }
                _ => break,
            }
            c += 1;
        }
        if EXEC_L[i] != 0 {
            if let Node::Branch { sub, .. } = this {
                *leaf = &sub[(EXEC_L[i] - 1) as usize];
            }
        }
        if EXEC_Q[i] {
            let mut u = response.response_unit()?;
            u.data(Byte(b'1'));
            u.finish()?;
        }
        if EXEC_R[i] == 0 {
            Ok(())
        } else {
            Err(small_error(EXEC_R[i] - 1))
        }
    }
}

const T3: Node<KD> = Branch {
    name: b"",
    default: false,
    sub: &[
        Leaf { name: b"A", default: false, handler: &Never },
        Leaf { name: b"B", default: false, handler: &Never },
        Leaf { name: b"C", default: false, handler: &Never },
    ],
};

fn decode(code: u8) -> Item {
    match code {
        0 => Some(Ok(Token::HeaderMnemonicSeparator)),
        1 => Some(Ok(Token::HeaderQuerySuffix)),
        2 => Some(Ok(Token::ProgramMessageUnitSeparator)),
        3 => Some(Ok(Token::ProgramHeaderSeparator)),
        4 => Some(Ok(Token::ProgramDataSeparator)),
        5 => Some(Ok(Token::ProgramMnemonic(b"A"))),
        6 => Some(Ok(Token::ProgramMnemonic(b"*C"))),
        7 => Some(Ok(Token::CharacterProgramData(b"X"))),
        8 => Some(Ok(Token::NonDecimalNumericProgramData(7))),
        9 => Some(Err(ErrorCode::SyntaxError)),
        10 => Some(Err(ErrorCode::InvalidSeparator)),
        _ => None,
    }
}
fn is_data_code(c: u8) -> bool {
    c == 7 || c == 8
}

/// Outcome of the reference interpreter.
struct Ref {
    result: i16, // 0 = Ok, else the SCPI error number
    calls: usize,
    from_root: [bool; UMAX],
    level_in: [u8; UMAX],
    pos_at: [usize; UMAX],
    out: [u8; 8],
    out_len: usize,
}

/// Reference semantics of the unit loop, written from the property statements:
///  C02  first unit / leading `:` => root; `*` mnemonic => root without moving the level;
///       otherwise the level left by the previous unit.
///  C05  stop at the first failing unit / token error, return exactly that error.
///  C06  leftover data or `,` after a unit => -108; anything but `;`/end => -102.
///  C10  `;` between response units, one NL at the end iff some query produced output.
///  C11  a write that does not fit the buffer => -225 (cap = usize::MAX for a growable one).
fn reference(codes: &[u8; KMAX], n: &[u8; UMAX], r: &[u8; UMAX], q: &[bool; UMAX], l: &[u8; UMAX], cap: usize) -> Ref {
    let mut o = Ref { result: 0, calls: 0, from_root: [false; UMAX], level_in: [0; UMAX], pos_at: [0; UMAX], out: [0; 8], out_len: 0 };
    let mut pos = 0usize;
    let mut level = 0u8;
    loop {
        let c = if pos < KMAX { codes[pos] } else { 11 };
        let start_level;
        let throwaway;
        match c {
            0 => {
                pos += 1;
                level = 0;
                start_level = 0;
                throwaway = false;
            }
            5 => {
                start_level = level;
                throwaway = false;
            }
            6 => {
                start_level = 0;
                throwaway = true;
            }
            11 => {
                // end of input where a unit should start (empty message or trailing `;`):
                // C10: the response still ends with exactly one NL iff a query produced output
                if o.out_len > 0 {
                    if o.out_len < cap {
                        o.out[o.out_len] = b'\n';
                        o.out_len += 1;
                    } else {
                        o.result = -225;
                    }
                }
                return o;
            }
            9 => {
                o.result = -102;
                return o;
            }
            10 => {
                o.result = -103;
                return o;
            }
            _ => {
                o.result = -102;
                return o;
            }
        }
        // the unit
        let i = o.calls;
        if i >= UMAX {
            o.result = -300;
            return o;
        }
        o.calls += 1;
        o.from_root[i] = start_level == 0;
        o.level_in[i] = start_level;
        o.pos_at[i] = pos;
        let mut k = 0;
        while k < n[i] {
            let cc = if pos < KMAX { codes[pos] } else { 11 };
            if cc <= 8 && cc != 2 {
                pos += 1;
            } else {
                break;
            }
            k += 1;
        }
        if l[i] != 0 && start_level == 0 && !throwaway {
            level = l[i];
        }
        if q[i] {
            if o.out_len > 0 {
                if o.out_len < cap {
                    o.out[o.out_len] = b';';
                    o.out_len += 1;
                } else {
                    o.result = -225;
                    return o;
                }
            }
            if o.out_len < cap {
                o.out[o.out_len] = b'1';
                o.out_len += 1;
            } else {
                o.result = -225;
                return o;
            }
        }
        if r[i] != 0 {
            o.result = small_error(r[i] - 1).get_code();
            return o;
        }
        // what follows the unit
        let cc = if pos < KMAX { codes[pos] } else { 11 };
        match cc {
            11 => {
                if o.out_len > 0 {
                    if o.out_len < cap {
                        o.out[o.out_len] = b'\n';
                        o.out_len += 1;
                    } else {
                        o.result = -225;
                    }
                }
                return o;
            }
            2 => {
                pos += 1;
            }
            4 | 7 | 8 => {
                o.result = -108;
                return o;
            }
            9 => {
                o.result = -102;
                return o;
            }
            10 => {
                o.result = -103;
                return o;
            }
            _ => {
                o.result = -102;
                return o;
            }
        }
    }
}

fn setup(k: usize) -> ([u8; KMAX], [u8; UMAX], [u8; UMAX], [bool; UMAX], [u8; UMAX]) {
    let mut codes = [11u8; KMAX];
    let mut i = 0;
    while i < k {
        let c: u8 = kani::any();
        kani::assume(c <= 11);
        codes[i] = c;
        i += 1;
    }
    // once the input has ended it stays ended
    let mut i = 1;
    while i < k {
        kani::assume(codes[i - 1] != 11 || codes[i] == 11);
        i += 1;
    }
    let mut script: [Item; KMAX] = [None; KMAX];
    let mut i = 0;
    while i < k {
        script[i] = decode(codes[i]);
        i += 1;
    }
    set_script_arr(script);
    let n: [u8; UMAX] = kani::any();
    let r: [u8; UMAX] = kani::any();
    let q: [bool; UMAX] = kani::any();
    let l: [u8; UMAX] = kani::any();
    let mut i = 0;
    while i < UMAX {
        kani::assume(n[i] <= 2 && r[i] <= 2 && l[i] <= 3);
        i += 1;
    }
    unsafe {
        EXEC_CALLS = 0;
        EXEC_N = n;
        EXEC_R = r;
        EXEC_Q = q;
        EXEC_L = l;
    }
    (codes, n, r, q, l)
}

fn check_against_reference(rf: &Ref, res: &Result<()>, out: &[u8]) {
    unsafe {
        // C05
        assert!(EXEC_CALLS == rf.calls, "C05/Node::run_tokens/executes-exactly-the-units-up-to-the-first-failure-each-once");
        if rf.result == 0 {
            assert!(res.is_ok(), "C05/Node::run_tokens/succeeds-iff-every-unit-succeeds");
        } else {
            assert!(is_err_code(res, rf.result), "C05/Node::run_tokens/returns-exactly-the-first-error");
        }
        let mut i = 0;
        while i < UMAX {
            if i < rf.calls && i < EXEC_CALLS {
                assert!(EXEC_POS[i] == rf.pos_at[i], "C05/Node::run_tokens/units-start-in-order-at-their-own-header");
                // C02 (unit start level)
                assert!(EXEC_LEVEL_IN[i] == rf.level_in[i], "C02/Node::run_tokens/unit-resolves-from-root-or-from-the-previous-level");
            }
            i += 1;
        }
        // C10 / C11 (only successful messages are constrained byte for byte)
        if rf.result == 0 {
            assert!(out.len() == rf.out_len, "C10/Node::run_tokens/response-length");
            macro_rules! cmp { ($($j:expr),*) => { $( if $j < rf.out_len && $j < out.len() {
                assert!(out[$j] == rf.out[$j], "C10/Node::run_tokens/units-joined-by-semicolon-one-final-NL-iff-output"); } )* }; }
            cmp!(0, 1, 2, 3, 4, 5, 6, 7);
        }
    }
}

macro_rules! run_tokens_harness {
    ($name:ident, $k:expr, $unwind:expr) => {
        #[kani::proof]
        #[kani::unwind($unwind)]
        #[kani::stub(<crate::parser::tokenizer::Tokenizer as core::iter::Iterator>::next, stub_next)]
        #[kani::stub(crate::tree::Node::exec, stub_exec)]
        pub fn $name() {
            let (codes, n, r, q, l) = setup($k);
            let rf = reference(&codes, &n, &r, &q, &l, usize::MAX);
            let mut d = KD::new();
            let mut ctx = Context::default();
            // the interface may hand in any Context (MAV is state carried between messages)
            ctx.mav = kani::any();
            let mut out = ArrFmt::new(16);
            let mut toks = Tokenizer::new(b"").peekable();
            kani::cover!(rf.calls == 2 && rf.result == 0);
            kani::cover!(rf.calls >= 1 && rf.result == -108);
            kani::cover!(rf.out_len == 2);
            let res = T3.run_tokens(&mut d, &mut ctx, &mut toks, &mut out);
            check_against_reference(&rf, &res, out.as_slice());
            assert!(d.hook_calls == 0, "C05/Node::run_tokens/does-not-call-the-error-hook-itself");
        }
    };
}
run_tokens_harness!(run_tokens_k3, 3, 5);
run_tokens_harness!(run_tokens_k4, 4, 6);
run_tokens_harness!(run_tokens_k5, 5, 7);
run_tokens_harness!(run_tokens_k6, 6, 8);

/// C06: ANY data element kind (all seven) or a data separator left over by the handler makes
/// the message fail with -108; any other non-separator token with -102.  One case after the
/// other so that the token kind is a constant on each path.
#[kani::proof]
#[kani::unwind(6)]
#[kani::stub(<crate::parser::tokenizer::Tokenizer as core::iter::Iterator>::next, stub_next)]
#[kani::stub(crate::tree::Node::exec, stub_exec)]
pub fn leftover_every_data_kind() {
    let p: &'static [u8] = any_payload(0);
    macro_rules! case {
        ($tok:expr, $code:expr) => {{
            set_script(&[Some(Ok(Token::ProgramMnemonic(b"A"))), Some(Ok($tok)), Some(Ok(Token::ProgramMessageUnitSeparator)), Some(Ok(Token::ProgramMnemonic(b"A")))]);
            unsafe {
                EXEC_CALLS = 0;
                EXEC_N = [1; UMAX];
                EXEC_R = [0; UMAX];
                EXEC_Q = [false; UMAX];
                EXEC_L = [0; UMAX];
            }
            let mut d = KD::new();
            let mut ctx = Context::default();
            // the interface may hand in any Context (MAV is state carried between messages)
            ctx.mav = kani::any();
            let mut out = ArrFmt::new(16);
            let mut toks = Tokenizer::new(b"").peekable();
            let res = T3.run_tokens(&mut d, &mut ctx, &mut toks, &mut out);
            assert!(is_err_code(&res, $code), "C06/Node::run_tokens/unconsumed-data-element-of-any-kind-is-108-before-the-next-unit-starts");
            assert!(unsafe { EXEC_CALLS } == 1, "C06/Node::run_tokens/the-next-unit-is-not-started");
        }};
    }
    case!(Token::CharacterProgramData(p), -108);
    case!(Token::DecimalNumericProgramData(p), -108);
    case!(Token::DecimalNumericSuffixProgramData(p, b"V"), -108);
    case!(Token::NonDecimalNumericProgramData(kani::any()), -108);
    case!(Token::StringProgramData(p), -108);
    case!(Token::ArbitraryBlockData(p), -108);
    case!(Token::ExpressionProgramData(p), -108);
    case!(Token::ProgramDataSeparator, -108);
    case!(Token::HeaderQuerySuffix, -102);
    case!(Token::ProgramMnemonic(p), -102);
}

/// Same contract with a fixed-capacity buffer (C11): -225 exactly where the reference says the
/// next write does not fit, never a panic, never beyond CAP.
pub fn run_tokens_fixed_body() {
    let (codes, n, r, q, l) = setup(4);
    // any fixed-capacity formatter that satisfies the primitive contracts proved for
    // ArrayVec<u8, CAP> in c10::array_cap*: capacity symbolic 0..=4
    let cap: usize = kani::any();
    kani::assume(cap <= 4);
    let rf = reference(&codes, &n, &r, &q, &l, cap);
    let mut d = KD::new();
    let mut ctx = Context::default();
    // the interface may hand in any Context (MAV is state carried between messages)
    ctx.mav = kani::any();
    let mut out = ArrFmt::new(cap);
    let mut toks = Tokenizer::new(b"").peekable();
    kani::cover!(rf.result == -225);
    kani::cover!(rf.result == 0 && rf.calls >= 1 && rf.out_len == cap);
    let res = T3.run_tokens(&mut d, &mut ctx, &mut toks, &mut out);
    unsafe {
        assert!(EXEC_CALLS == rf.calls, "C11/Node::run_tokens/stops-at-the-unit-whose-response-does-not-fit");
    }
    if rf.result == 0 {
        assert!(res.is_ok(), "C11/Node::run_tokens/a-response-that-fits-succeeds");
        assert!(out.len == rf.out_len, "C11/Node::run_tokens/bytes-identical-to-growable-buffer");
        macro_rules! cmp { ($($j:expr),*) => { $( if $j < rf.out_len && $j < out.len {
            assert!(out.bytes[$j] == rf.out[$j], "C11/Node::run_tokens/bytes-identical-to-growable-buffer"); } )* }; }
        cmp!(0, 1, 2, 3, 4, 5, 6, 7);
    } else {
        assert!(is_err_code(&res, rf.result), "C11/Node::run_tokens/a-response-that-does-not-fit-fails-with-225");
    }
    assert!(out.len <= cap, "C11/Node::run_tokens/never-writes-beyond-capacity");
}

// ------------------------------------------------------------------ ResponseUnit latch
/// Formatter whose `fail_at`-th write fails (0-based); counts writes issued after a failure.
pub struct FaultFmt {
    pub writes: u8,
    pub fail_at: u8,
    pub err: u8,
    pub failed: bool,
    pub writes_after_failure: u8,
    pub bytes: [u8; 16],
    pub len: usize,
}
impl FaultFmt {
    fn step(&mut self) -> Result<()> {
        if self.failed {
            self.writes_after_failure += 1;
        }
        let w = self.writes;
        self.writes += 1;
        if w == self.fail_at {
            self.failed = true;
            Err(small_error(self.err))
        } else {
            Ok(())
        }
    }
}
impl Formatter for FaultFmt {
    fn push_str(&mut self, s: &[u8]) -> Result<()> {
        self.step()?;
        let mut i = 0;
        while i < s.len() && self.len < 16 {
            self.bytes[self.len] = s[i];
            self.len += 1;
            i += 1;
        }
        Ok(())
    }
    fn push_byte(&mut self, b: u8) -> Result<()> {
        self.step()?;
        if self.len < 16 {
            self.bytes[self.len] = b;
            self.len += 1;
        }
        Ok(())
    }
    fn as_slice(&self) -> &[u8] {
        &self.bytes[..self.len]
    }
    fn clear(&mut self) {
        self.len = 0
    }
    fn len(&self) -> usize {
        self.len
    }
    fn message_start(&mut self) -> Result<()> {
        Ok(())
    }
    fn message_end(&mut self) -> Result<()> {
        self.push_byte(b'\n')
    }
    fn response_unit(&mut self) -> Result<ResponseUnit> {
        if !self.is_empty() {
            self.push_byte(b';')?;
        }
        Ok(scpi::parser::response::verif_hook::unit(self))
    }
}

/// After the first failing write no further write is issued and `finish()` returns exactly
/// that error; without a failure the bytes are header(s), one space, data joined by commas.
#[kani::proof]
#[kani::unwind(18)]
pub fn response_unit_latches_first_error() {
    let fail_at: u8 = kani::any();
    let err: u8 = kani::any();
    kani::assume(err < 4);
    let mut f = FaultFmt { writes: 0, fail_at, err, failed: false, writes_after_failure: 0, bytes: [0; 16], len: 0 };
    let nhdr: u8 = kani::any();
    let ndata: u8 = kani::any();
    kani::assume(nhdr <= 2 && ndata <= 3);
    let r;
    {
        let mut u = scpi::parser::response::verif_hook::unit(&mut f);
        if nhdr > 0 {
            u.header(b"H");
        }
        if nhdr > 1 {
            u.header(b"I");
        }
        if ndata > 0 {
            u.data(Byte(b'a'));
        }
        if ndata > 1 {
            u.data(Byte(b'b'));
        }
        if ndata > 2 {
            u.data(Byte(b'c'));
        }
        r = u.finish();
    }
    // writes a fault-free run issues
    let mut exp = [0u8; 16];
    let mut n = 0usize;
    let mut writes = 0u8;
    if nhdr > 0 {
        exp[n] = b'H';
        n += 1;
        writes += 1;
    }
    if nhdr > 1 {
        exp[n] = b':';
        exp[n + 1] = b'I';
        n += 2;
        writes += 2;
    }
    let mut i = 0u8;
    while i < 3 {
        if i < ndata {
            if i > 0 {
                exp[n] = b',';
                n += 1;
                writes += 1;
            } else if nhdr > 0 {
                exp[n] = b' ';
                n += 1;
                writes += 1;
            }
            exp[n] = b'a' + i;
            n += 1;
            writes += 1;
        }
        i += 1;
    }
    kani::cover!(fail_at == 3 && writes == 7);
    kani::cover!(fail_at >= writes && writes == 7);
    if fail_at < writes {
        assert!(r == Err(small_error(err)), "C05/ResponseUnit::finish/returns-the-first-formatting-error");
        assert!(f.writes_after_failure == 0, "C05/ResponseUnit::data|header/no-write-after-the-first-failing-write");
        assert!(f.writes == fail_at + 1, "C05/ResponseUnit::data|header/stops-at-the-failing-write");
    } else {
        assert!(r.is_ok(), "C05/ResponseUnit::finish/ok-when-every-write-succeeded");
        assert!(f.len == n, "C10/ResponseUnit::data|header/length");
        let mut j = 0;
        while j < 16 {
            if j < n {
                assert!(f.bytes[j] == exp[j], "C10/ResponseUnit::data|header/header-space-data-joined-by-commas");
            }
            j += 1;
        }
    }
}
