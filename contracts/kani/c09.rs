//! C09 — response data is well-formed and denotes exactly the value that was formatted.
//! Contract per `ResponseData` impl: the bytes appended equal the canonical IEEE 488.2 text
//! produced by an independent encoder (so they are syntactically valid and denote the value),
//! and nothing else in the buffer changes.  Where the type is also a parameter type the
//! library's own conversion is applied to the emitted text (round trip).
//!   8/16-bit integers (decimal, #H #Q #B), bool, float sentinels, Character, Expression:
//!       every value — unbounded / width-complete;
//!   strings, blocks, lists: all contents up to a stated length — bounded;
//!   digits of finite floats and of 32/64-bit integers: `lexical_core::write` — assumed.
use super::kenv::*;
use super::spec::*;
use super::vk::*;
use scpi::error::{Error, ErrorCode};
use scpi::parser::format::{Arbitrary, Binary, Character, Expression, Hex, Octal};
use scpi::parser::response::{Formatter, ResponseData};
use scpi::parser::tokenizer::{Token, Tokenizer};

type Out = alloc::vec::Vec<u8>;

macro_rules! int_dec {
    ($name:ident, $t:ty) => {
        #[kani::proof]
        #[kani::unwind(12)]
        pub fn $name() {
            let v: $t = kani::any();
            let mut out = Out::new();
            out.push(b'x');
            let r = v.format_response_data(&mut out);
            let mut e = [0u8; 40];
            let n = spec_dec32(v as i32, &mut e);
            kani::cover!(v == <$t>::MIN);
            kani::cover!(v == <$t>::MAX);
            assert!(r.is_ok(), "C09/int::format_response_data/ok");
            assert!(out[0] == b'x', "C09/int::format_response_data/appends-only");
            assert!(bytes_eq(&out[1..], &e[..n]), "C09/int::format_response_data/canonical-NR1-text-of-the-value");
        }
    };
}
int_dec!(dec_u8, u8);

/// Own-parser round trip of the decimal text (real lexical_core on both sides) for u8.
#[kani::proof]
#[kani::unwind(12)]
pub fn dec_u8_own_parser() {
    let v: u8 = kani::any();
    let mut out = Out::new();
    let _ = v.format_response_data(&mut out);
    let back = u8::try_from(Token::DecimalNumericProgramData(&out));
    assert!(back == Ok(v), "C09/int::format_response_data/own-parser-returns-the-value");
}
int_dec!(dec_i8, i8);
int_dec!(dec_u16, u16);
int_dec!(dec_i16, i16);

fn digit_val(c: u8) -> u32 {
    if c >= b'0' && c <= b'9' {
        (c - b'0') as u32
    } else if c >= b'A' && c <= b'F' {
        (c - b'A') as u32 + 10
    } else if c >= b'a' && c <= b'f' {
        (c - b'a') as u32 + 10
    } else {
        99
    }
}
/// Independent decoder of `#H..`, `#Q..`, `#B..` (IEEE 488.2 8.7.5-8.7.7).
fn decode_nondec(s: &[u8], letter: u8, radix: u32) -> Option<u64> {
    if s.len() < 3 || s.len() > 18 || s[0] != b'#' || s[1] != letter {
        return None;
    }
    let mut v: u64 = 0;
    let mut i = 2;
    while i < s.len() {
        let d = digit_val(s[i]);
        if d >= radix {
            return None;
        }
        v = v * radix as u64 + d as u64;
        i += 1;
    }
    Some(v)
}

macro_rules! int_nondec {
    ($name:ident, $t:ty) => {
        #[kani::proof]
        #[kani::unwind(20)]
        pub fn $name() {
            let v: $t = kani::any();
            kani::assume(v >= 0);
            let mut out = Out::new();
            assert!(Hex(v).format_response_data(&mut out).is_ok(), "C09/Hex::format_response_data/ok");
            assert!(decode_nondec(&out, b'H', 16) == Some(v as u64), "C09/Hex::format_response_data/#H-literal-denotes-the-value");
            let mut out = Out::new();
            assert!(Octal(v).format_response_data(&mut out).is_ok(), "C09/Octal::format_response_data/ok");
            assert!(decode_nondec(&out, b'Q', 8) == Some(v as u64), "C09/Octal::format_response_data/#Q-literal-denotes-the-value");
            let mut out = Out::new();
            assert!(Binary(v).format_response_data(&mut out).is_ok(), "C09/Binary::format_response_data/ok");
            assert!(decode_nondec(&out, b'B', 2) == Some(v as u64), "C09/Binary::format_response_data/#B-literal-denotes-the-value");
        }
    };
}
int_nondec!(nondec_u8, u8);
int_nondec!(nondec_i8, i8);
int_nondec!(nondec_u16, u16);
int_nondec!(nondec_i16, i16);

/// Assumed contract of `lexical_core::write` for floats: some non-empty text in the buffer.
pub fn stub_write<N: lexical_core::ToLexical>(_n: N, bytes: &mut [u8]) -> &mut [u8] {
    bytes[0] = b'F';
    &mut bytes[..1]
}

/// Any other lexical_core formatting entry point (non-default options) is NOT the contract for
/// finite floats: mark its output so that its use is noticed.
pub fn stub_write_with_options<'a, N: lexical_core::ToLexicalWithOptions, const FORMAT: u128>(
    _n: N,
    bytes: &'a mut [u8],
    _options: &N::Options,
) -> &'a mut [u8] {
    bytes[0] = b'G';
    &mut bytes[..1]
}

macro_rules! real_sentinels {
    ($name:ident, $t:ty) => {
        #[kani::proof]
        #[kani::unwind(12)]
        #[kani::stub(lexical_core::write, stub_write)]
        #[kani::stub(lexical_core::write_with_options, stub_write_with_options)]
        pub fn $name() {
            let v: $t = kani::any();
            let mut out = Out::new();
            let r = v.format_response_data(&mut out);
            assert!(r.is_ok(), "C09/float::format_response_data/ok");
            if v != v {
                assert!(bytes_eq(&out, b"9.91E+37"), "C09/float::format_response_data/NaN-is-9.91E+37");
            } else if v == <$t>::INFINITY {
                assert!(bytes_eq(&out, b"9.9E+37"), "C09/float::format_response_data/+inf-is-9.9E+37");
            } else if v == <$t>::NEG_INFINITY {
                assert!(bytes_eq(&out, b"-9.9E+37"), "C09/float::format_response_data/-inf-is--9.9E+37");
            } else {
                assert!(bytes_eq(&out, b"F"), "C09/float::format_response_data/finite-values-are-written-by-the-number-formatter-unchanged");
            }
        }
    };
}
real_sentinels!(sentinels_f32, f32);
real_sentinels!(sentinels_f64, f64);

#[kani::proof]
#[kani::unwind(9)]
#[kani::stub(<[u8]>::is_ascii, stub_is_ascii)]
pub fn bool_character_expression() {
    let b: bool = kani::any();
    let mut out = Out::new();
    assert!(b.format_response_data(&mut out).is_ok() && bytes_eq(&out, if b { b"1" } else { b"0" }), "C09/bool::format_response_data/0-or-1");
    // lengths are concrete per case (core's is_ascii picks its algorithm by length), content symbolic
    let p: [u8; 4] = kani::any();
    let mut i = 0;
    while i < 4 {
        kani::assume(p[i] < 0x80);
        i += 1;
    }
    macro_rules! case {
        ($n:expr) => {{
            let s = &p[..$n];
            let mut out = Out::new();
            assert!(Character(s).format_response_data(&mut out).is_ok() && bytes_eq(&out, s), "C09/Character::format_response_data/emits-the-characters");
            let mut out = Out::new();
            assert!(Expression(s).format_response_data(&mut out).is_ok(), "C09/Expression::format_response_data/ok");
            assert!(out.len() == s.len() + 2 && out[0] == b'(' && out[out.len() - 1] == b')' && bytes_eq(&out[1..out.len() - 1], s), "C09/Expression::format_response_data/parenthesised-content");
        }};
    }
    case!(0);
    case!(1);
    case!(4);
}

/// Expression data round trip through the library's own lexer and conversion.  The text fed to
/// the lexer is the independently encoded one, which the first assertion proves equal to the
/// emitted text (its first byte is then a constant and only the expression reader is walked).
macro_rules! expr_rt {
    ($name:ident, $n:expr) => {
        #[kani::proof]
        #[kani::unwind(10)]
        #[kani::stub(<[u8]>::is_ascii, stub_is_ascii)]
        pub fn $name() {
            let p: [u8; $n + 1] = kani::any();
            let s = &p[..$n];
            let mut text = [b'('; $n + 2];
            let mut i = 0;
            while i < $n {
                // content an expression may hold (488.2 7.7.7)
                kani::assume(s[i] < 0x80 && s[i] != b'(' && s[i] != b')' && s[i] != b'"' && s[i] != b'\'' && s[i] != b';');
                text[1 + i] = s[i];
                i += 1;
            }
            text[$n + 1] = b')';
            let mut out = ArrFmt::new(16);
            let _ = Expression(s).format_response_data(&mut out);
            assert!(bytes_eq(out.as_slice(), &text), "C09/Expression::format_response_data/parenthesised-content");
            let mut t = Tokenizer::new_params(&text);
            match t.next() {
                Some(Ok(tok)) => {
                    let back = Expression::try_from(tok);
                    assert!(match back { Ok(Expression(x)) => bytes_eq(x, s), Err(_) => false }, "C09/Expression::format_response_data/own-parser-returns-the-value");
                }
                _ => assert!(false, "C09/Expression::format_response_data/own-lexer-accepts-the-emitted-text"),
            }
        }
    };
}
expr_rt!(expression_roundtrip_len0, 0);
expr_rt!(expression_roundtrip_len3, 3);

fn quoted(s: &[u8], e: &mut [u8; 32]) -> usize {
    let mut n = 0;
    e[n] = b'"';
    n += 1;
    let mut i = 0;
    while i < s.len() {
        if s[i] == b'"' {
            e[n] = b'"';
            n += 1;
        }
        e[n] = s[i];
        n += 1;
        i += 1;
    }
    e[n] = b'"';
    n + 1
}

/// Strings: content symbolic (every byte value, quotes at every position), length concrete per
/// case 0..=N.
macro_rules! string_case {
    ($p:expr, $n:expr) => {{
        let s = &$p[..$n];
        let mut ascii = true;
        let mut i = 0;
        while i < $n {
            if s[i] >= 0x80 {
                ascii = false;
            }
            i += 1;
        }
        let mut out = ArrFmt::new(16);
        let r = s.format_response_data(&mut out);
        if !ascii {
            assert!(r.is_err(), "C09/<&[u8]>::format_response_data/non-ASCII-content-is-refused");
        } else {
            let mut e = [0u8; 32];
            let n = quoted(s, &mut e);
            assert!(r.is_ok(), "C09/<&[u8]>::format_response_data/ok");
            assert!(bytes_eq(out.as_slice(), &e[..n]), "C09/<&[u8]>::format_response_data/quoted-with-embedded-quotes-doubled");
        }
    }};
}
macro_rules! string_len {
    ($name:ident, $n:expr, $unwind:expr) => {
        #[kani::proof]
        #[kani::unwind($unwind)]
        #[kani::stub(<[u8]>::is_ascii, stub_is_ascii)]
        pub fn $name() {
            let p: [u8; $n + 1] = kani::any();
            string_case!(p, $n);
        }
    };
}
string_len!(string_len0, 0, 8);
string_len!(string_len1, 1, 8);
string_len!(string_len2, 2, 10);
string_len!(string_len3, 3, 12);
string_len!(string_len4, 4, 14);
string_len!(string_len5, 5, 16);
string_len!(string_len6, 6, 18);

/// Own-parser round trip of strings WITHOUT an embedded double quote (text fed to the lexer =
/// the independently encoded one, proved equal to the emitted text by `string_len*`).
macro_rules! string_rt {
    ($name:ident, $n:expr) => {
        #[kani::proof]
        #[kani::unwind(10)]
        pub fn $name() {
            let p: [u8; $n + 1] = kani::any();
            let s = &p[..$n];
            let mut text = [b'"'; $n + 2];
            let mut i = 0;
            while i < $n {
                kani::assume(s[i] < 0x80 && s[i] != b'"');
                text[1 + i] = s[i];
                i += 1;
            }
            let mut t = Tokenizer::new_params(&text);
            match t.next() {
                Some(Ok(tok)) => assert!(match <&[u8]>::try_from(tok) { Ok(x) => bytes_eq(x, s), Err(_) => false }, "C09/<&[u8]>::format_response_data/own-parser-returns-the-value-(no-embedded-quote)"),
                _ => assert!(false, "C09/<&[u8]>::format_response_data/own-lexer-accepts-the-emitted-text"),
            }
        }
    };
}
string_rt!(string_roundtrip_len0, 0);
string_rt!(string_roundtrip_len2, 2);
string_rt!(string_roundtrip_len3, 3);

/// Witness clause of known finding F6: with an embedded double quote the zero-copy lexer hands
/// back the doubled text.  Kept so that the finding stays identified by its witness.
#[kani::proof]
#[kani::unwind(14)]
#[kani::stub(<[u8]>::is_ascii, stub_is_ascii)]
pub fn string_roundtrip_with_quote() {
    let s: &[u8] = b"a\"b";
    let mut out = ArrFmt::new(16);
    let _ = s.format_response_data(&mut out);
    assert!(bytes_eq(out.as_slice(), b"\"a\"\"b\""), "C09/<&[u8]>::format_response_data/quoted-with-embedded-quotes-doubled");
    let mut t = Tokenizer::new_params(b"\"a\"\"b\"");
    match t.next() {
        Some(Ok(tok)) => assert!(match <&[u8]>::try_from(tok) { Ok(x) => bytes_eq(x, s), Err(_) => false }, "C09/<&[u8]>::format_response_data/own-parser-returns-the-value-(witness-a-quote-b)"),
        _ => assert!(false, "C09/<&[u8]>::format_response_data/own-lexer-accepts-the-emitted-text"),
    }
}

/// Blocks: payload content symbolic, length concrete per case (crossing the 9/10 and 99/100
/// digit-count boundaries in the thorough tier).
macro_rules! block_case {
    ($p:expr, $n:expr, $as_str:expr) => {{
        let s = &$p[..$n];
        let mut out = Out::new();
        let r = if $as_str {
            let mut i = 0;
            while i < $n {
                kani::assume(s[i] < 0x80);
                i += 1;
            }
            core::str::from_utf8(s).unwrap().format_response_data(&mut out)
        } else {
            Arbitrary(s).format_response_data(&mut out)
        };
        assert!(r.is_ok(), "C09/Arbitrary::format_response_data/ok");
        let mut d = [0u8; 40];
        let nd = spec_dec32($n as i32, &mut d);
        assert!(out.len() == 2 + nd + $n, "C09/Arbitrary::format_response_data/total-length");
        assert!(out[0] == b'#' && out[1] == b'0' + nd as u8, "C09/Arbitrary::format_response_data/header-states-the-number-of-length-digits");
        assert!(bytes_eq(&out[2..2 + nd], &d[..nd]), "C09/Arbitrary::format_response_data/header-states-the-payload-length");
        assert!(bytes_eq(&out[2 + nd..], s), "C09/Arbitrary::format_response_data/payload-follows-unchanged");
    }};
}
#[kani::proof]
#[kani::unwind(14)]
#[kani::stub(<[u8]>::is_ascii, stub_is_ascii)]
pub fn block_n11() {
    let p: [u8; 11] = kani::any();
    block_case!(p, 0, false);
    block_case!(p, 1, false);
    block_case!(p, 9, false);
    block_case!(p, 10, false);
    block_case!(p, 11, false);
    block_case!(p, 2, true);
}
#[kani::proof]
#[kani::unwind(104)]
#[kani::stub(<[u8]>::is_ascii, stub_is_ascii)]
pub fn block_n100() {
    let p: [u8; 100] = kani::any();
    block_case!(p, 99, false);
    block_case!(p, 100, false);
}

/// A list is the elements joined by commas; an empty list is an error, not an empty element.
/// Lengths 0..=3, one case after the other (element values symbolic).
#[kani::proof]
#[kani::unwind(8)]
pub fn list_vec_and_arrayvec() {
    let vals: [u8; 3] = kani::any();
    macro_rules! case {
        ($n:expr) => {{
            let mut v = alloc::vec::Vec::<Byte>::new();
            let mut a = arrayvec::ArrayVec::<Byte, 3>::new();
            let mut i = 0;
            while i < $n {
                v.push(Byte(vals[i]));
                a.push(Byte(vals[i]));
                i += 1;
            }
            let mut out = ArrFmt::new(16);
            let r = v.format_response_data(&mut out);
            let mut out2 = ArrFmt::new(16);
            let r2 = a.format_response_data(&mut out2);
            if $n == 0 {
                assert!(r.is_err() && out.len == 0, "C09/Vec::format_response_data/empty-list-is-an-error");
                assert!(r2.is_err() && out2.len == 0, "C09/ArrayVec::format_response_data/empty-list-is-an-error");
            } else {
                assert!(r.is_ok() && out.len == 2 * $n - 1, "C09/Vec::format_response_data/n-elements-n-1-commas");
                assert!(r2.is_ok() && bytes_eq(out.as_slice(), out2.as_slice()), "C09/ArrayVec::format_response_data/same-as-Vec");
                let mut j = 0;
                while j < $n {
                    assert!(out.bytes[2 * j] == vals[j], "C09/Vec::format_response_data/elements-in-order");
                    if j > 0 {
                        assert!(out.bytes[2 * j - 1] == b',', "C09/Vec::format_response_data/comma-joined");
                    }
                    j += 1;
                }
            }
        }};
    }
    case!(0);
    case!(1);
    case!(2);
    case!(3);
}

/// Error-queue items: `code,"message"` / `code,"message;extended"` for ANY error number and
/// ANY message text (symbolic, <= 5 plain ASCII bytes): the item is the number, a comma and the
/// quoted text.  That every STANDARD error's text is plain ASCII (so that this contract applies
/// to it) is `standard_messages_are_plain`.
pub static mut MSG: [u8; 4] = [0; 4];
macro_rules! error_case {
    ($code:expr, $n:expr, $ext:expr) => {{
        let code: i16 = $code;
        let m: &'static [u8] = unsafe { &MSG[..$n] };
        let base = Error::custom(code, m);
        let e = if $ext { base.extended(b"xy") } else { base };
        let mut fo = ArrFmt::new(16);
        let r = e.format_response_data(&mut fo);
        let out = fo.as_slice();
        assert!(r.is_ok(), "C09/Error::format_response_data/ok");
        let mut d = [0u8; 40];
        let nd = spec_dec32(code as i32, &mut d);
        let tail = if $ext { 3 } else { 0 };
        assert!(out.len() == nd + 2 + $n + tail + 1, "C09/Error::format_response_data/length");
        assert!(bytes_eq(&out[..nd], &d[..nd]), "C09/Error::format_response_data/starts-with-the-error-number");
        assert!(out[nd] == b',' && out[nd + 1] == b'"' && out[out.len() - 1] == b'"', "C09/Error::format_response_data/comma-then-quoted-message");
        assert!(bytes_eq(&out[nd + 2..nd + 2 + $n], m), "C09/Error::format_response_data/message-text");
        if $ext {
            assert!(bytes_eq(&out[nd + 2 + $n..out.len() - 1], b";xy"), "C09/Error::format_response_data/extended-text-after-semicolon");
        }
    }};
}
fn any_msg() {
    unsafe {
        MSG = kani::any();
        let mut i = 0;
        while i < 4 {
            kani::assume(MSG[i] < 0x80 && MSG[i] != b'"');
            i += 1;
        }
    }
}
// one harness per case: the quoting of the message (`split`) is the expensive part and the
// cases are independent
#[kani::proof]
#[kani::unwind(16)]
#[kani::stub(<[u8]>::is_ascii, stub_is_ascii)]
pub fn error_item_any_number() {
    any_msg();
    // the number is symbolic here (its digits for every i16 are also `dec_i16`'s obligation)
    error_case!(kani::any(), 2, true);
}
#[kani::proof]
#[kani::unwind(16)]
#[kani::stub(<[u8]>::is_ascii, stub_is_ascii)]
pub fn error_item_extended() {
    any_msg();
    error_case!(-113, 4, true);
    error_case!(32767, 0, true);
}
#[kani::proof]
#[kani::unwind(16)]
#[kani::stub(<[u8]>::is_ascii, stub_is_ascii)]
pub fn error_item_plain() {
    any_msg();
    error_case!(32767, 0, false);
    error_case!(-1, 4, false);
}

/// Every standard error reports its own number and a non-empty plain-ASCII text without quotes.
#[kani::proof]
#[kani::unwind(64)]
pub fn standard_messages_are_plain() {
    let code: i16 = kani::any();
    if let Some(ec) = ErrorCode::get_error(code) {
        let e = Error::new(ec);
        let m = e.get_message();
        assert!(e.get_code() == code, "C09/Error::get_code/standard-error-reports-its-number");
        assert!(m.len() >= 1 && m.len() <= 60, "C09/Error::get_message/non-empty-text");
        let mut i = 0;
        while i < m.len() {
            assert!(m[i] >= 0x20 && m[i] < 0x7F && m[i] != b'"', "C09/Error::get_message/plain-printable-ASCII-without-quotes");
            i += 1;
        }
    }
}
