//! C07 — integer parameters convert to the exactly rounded value or a range error.
//! Contract on each `TryFrom<Token> for {u8..usize, i8..isize}`; `lexical_core::parse` is
//! replaced by its assumed contract (klex.rs), so the conversion itself is loop-free and is
//! checked for EVERY double (resp. single) the literal can denote, every 64-bit non-decimal
//! value, and every keyword candidate of <= 12 bytes.
use super::klex::*;
use super::spec::*;
use super::vk::*;
use crate::error::{Error, ErrorCode};
use crate::parser::tokenizer::Token;

fn is_range_err(e: &Error) -> bool {
    *e == Error::new(ErrorCode::DataOutOfRange)
}

macro_rules! int_harnesses {
    ($t:ty, $single:expr, $dec:ident, $nondec:ident, $other:ident, $kw:ident) => {
        /// Decimal literal: NR1 fast path, float fallback, range errors.
        #[kani::proof]
        #[kani::unwind(20)]
        #[kani::stub(lexical_core::parse, stub_parse)]
        pub fn $dec() {
            let mode: u8 = kani::any();
            kani::assume(mode < 4);
            let n: $t = kani::any();
            let v64: f64 = kani::any();
            kani::assume(v64 == v64); // the lexer's NRf grammar has no NaN spelling
            let min = <$t>::MIN as i128;
            let max = <$t>::MAX as i128;
            unsafe {
                INT_MODE = mode;
                INT_VALUE = n as i128;
                F64_VALUE = v64;
                F32_VALUE = v64 as f32;
            }
            let mut buf = [0u8; 400];
            let text = literal_for(mode, n as i128, v64, &mut buf);
            kani::cover!(mode == 0 && v64 == 0.0);
            kani::cover!(mode == 0 && v64 == (<$t>::MAX as f64));
            let r = <$t>::try_from(Token::DecimalNumericProgramData(text));
            if mode == 1 {
                assert!(r == Ok(n), "C07/int::try_from/NR1-literal-gives-its-exact-value");
            } else if mode >= 2 {
                assert!(r == Err(Error::new(ErrorCode::DataOutOfRange)), "C07/int::try_from/NR1-literal-outside-the-type-is-222");
            } else {
                let v32 = (v64 as f32) as f64;
                let (ok64, err64) = spec_round_range(v64, min, max);
                let (ok32, err32) = spec_round_range(v32, min, max);
                match r {
                    Ok(i) => {
                        if $single {
                            assert!(!(err64 && err32), "C07/int::try_from/unrepresentable-rounded-value-must-be-222");
                            assert!(spec_near(i as i128, v64, false) || spec_near(i as i128, v32, true), "C07/int::try_from/value-is-a-nearest-integer-of-the-literal");
                        } else {
                            assert!(!err64, "C07/int::try_from/unrepresentable-rounded-value-must-be-222");
                            assert!(spec_near(i as i128, v64, false), "C07/int::try_from/value-is-a-nearest-integer-of-the-literal");
                        }
                    }
                    Err(e) => {
                        assert!(is_range_err(&e), "C07/int::try_from/only-error-for-a-decimal-literal-is-222");
                        if $single {
                            assert!(!(ok64 && ok32), "C07/int::try_from/representable-rounded-value-must-be-accepted");
                        } else {
                            assert!(!ok64, "C07/int::try_from/representable-rounded-value-must-be-accepted");
                        }
                    }
                }
            }
        }

        /// Non-decimal literal: exact value or -222.
        #[kani::proof]
        #[kani::unwind(3)]
        pub fn $nondec() {
            let u: u64 = kani::any();
            kani::cover!(u as i128 == <$t>::MAX as i128);
            kani::cover!(u as i128 == <$t>::MAX as i128 + 1 || <$t>::MAX as i128 == u64::MAX as i128);
            let r = <$t>::try_from(Token::NonDecimalNumericProgramData(u));
            if (u as i128) <= (<$t>::MAX as i128) {
                assert!(r == Ok(u as $t) && (u as $t) as i128 == u as i128, "C07/int::try_from/nondecimal-literal-converts-by-exact-value");
            } else {
                assert!(r == Err(Error::new(ErrorCode::DataOutOfRange)), "C07/int::try_from/nondecimal-literal-above-max-is-222");
            }
        }

        /// Suffix => -138; string / block / expression => -104.
        #[kani::proof]
        #[kani::unwind(3)]
        pub fn $other() {
            let p: [u8; 4] = kani::any();
            let k: u8 = kani::any();
            kani::assume(k < 4);
            let (tok, code) = match k {
                0 => (Token::DecimalNumericSuffixProgramData(&p, b"V"), ErrorCode::SuffixNotAllowed),
                1 => (Token::StringProgramData(&p), ErrorCode::DataTypeError),
                2 => (Token::ArbitraryBlockData(&p), ErrorCode::DataTypeError),
                _ => (Token::ExpressionProgramData(&p), ErrorCode::DataTypeError),
            };
            assert!(<$t>::try_from(tok) == Err(Error::new(code)), "C07/int::try_from/suffix-is-138-other-elements-are-104");
        }

        /// MINimum / MAXimum in short or long form, any case; every other character datum => -104.
        #[kani::proof]
        #[kani::unwind(14)]
        pub fn $kw() {
            let c: [u8; 12] = kani::any();
            let s = any_prefix1(&c);
            kani::assume(spec_cand(s));
            let r = <$t>::try_from(Token::CharacterProgramData(s));
            kani::cover!(spec_compare(b"MAXimum", s) && s.len() == 7);
            kani::cover!(spec_compare(b"MINimum", s) && s.len() == 3);
            if spec_compare(b"MAXimum", s) {
                assert!(r == Ok(<$t>::MAX), "C07/int::try_from/MAXimum-gives-type-max");
            } else if spec_compare(b"MINimum", s) {
                assert!(r == Ok(<$t>::MIN), "C07/int::try_from/MINimum-gives-type-min");
            } else {
                assert!(r == Err(Error::new(ErrorCode::DataTypeError)), "C07/int::try_from/other-character-data-is-104");
            }
        }
    };
}

int_harnesses!(u8, true, dec_u8, nondec_u8, other_u8, kw_u8);
int_harnesses!(i8, true, dec_i8, nondec_i8, other_i8, kw_i8);
int_harnesses!(u16, true, dec_u16, nondec_u16, other_u16, kw_u16);
int_harnesses!(i16, true, dec_i16, nondec_i16, other_i16, kw_i16);
int_harnesses!(u32, false, dec_u32, nondec_u32, other_u32, kw_u32);
int_harnesses!(i32, false, dec_i32, nondec_i32, other_i32, kw_i32);
int_harnesses!(u64, false, dec_u64, nondec_u64, other_u64, kw_u64);
int_harnesses!(i64, false, dec_i64, nondec_i64, other_i64, kw_i64);
int_harnesses!(usize, false, dec_usize, nondec_usize, other_usize, kw_usize);
int_harnesses!(isize, false, dec_isize, nondec_isize, other_isize, kw_isize);

/// bool is defined through the isize conversion: true iff the literal rounds to non-zero.
#[kani::proof]
#[kani::unwind(20)]
#[kani::stub(lexical_core::parse, stub_parse)]
pub fn bool_numeric() {
    let mode: u8 = kani::any();
    kani::assume(mode < 2);
    let n: isize = kani::any();
    let v64: f64 = kani::any();
    kani::assume(v64 == v64);
    unsafe {
        INT_MODE = mode;
        INT_VALUE = n as i128;
        F64_VALUE = v64;
        F32_VALUE = v64 as f32;
    }
    let mut buf = [0u8; 400];
    let text = literal_for(mode, n as i128, v64, &mut buf);
    let r = bool::try_from(Token::DecimalNumericProgramData(text));
    kani::cover!(mode == 0 && v64 == 0.0);
    if mode == 1 {
        assert!(r == Ok(n != 0), "C07/bool::try_from/NR1-literal-true-iff-nonzero");
    } else {
        let (ok, _err) = spec_round_range(v64, isize::MIN as i128, isize::MAX as i128);
        if ok {
            let z = spec_near(0, v64, false);
            let nz = !(v64 > -0.5 && v64 < 0.5);
            match r {
                Ok(b) => assert!((b && nz) || (!b && z), "C07/bool::try_from/true-iff-the-literal-rounds-to-nonzero"),
                Err(_) => assert!(false, "C07/bool::try_from/a-numeric-that-rounds-into-range-is-a-boolean"),
            }
        }
    }
}
