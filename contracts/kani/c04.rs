//! C04 / C01 — the lexer step contract.
//! `<Tokenizer as Iterator>::next` from ANY lexer state (in_header, in_common) and any buffer
//! of <= N bytes equals the reference step `ref_lex` (IEEE 488.2 section 7): token kind,
//! payload = the exact byte range of the input (pointer + length), non-decimal value, new
//! state, bytes consumed, and a command/execution error class on every malformed element.
//! C01 clauses on the same harnesses: no panic / overflow / out-of-bounds (CBMC's built-in
//! checks), `Some(Ok(_))` strictly consumes input (=> the unit loop terminates), `None` only
//! on empty input or a final NL.  BOUNDED in N; the 12/13-character limits are checked
//! width-complete (N = 14) separately.  lexical_core is replaced by its assumed contract.
use super::klex::*;
use super::klexref::*;
use super::spec::*;
use scpi::error::ErrorCode;
use scpi::parser::tokenizer::verif_hook::{state, with_state};
use scpi::parser::tokenizer::{Token, Tokenizer};

fn span_is(x: &[u8], s: &[u8], a: usize, b: usize) -> bool {
    x.as_ptr() == s[a..].as_ptr() && x.len() == b - a
}

fn class_of(code: i16) -> i16 {
    code / 100
}

/// Compare one real step with the reference.
fn check_step(s: &[u8], ih: bool, ic: bool) {
    let rf = ref_lex(s, ih, ic);
    let mut t = with_state(s, ih, ic);
    let got = t.next();
    let left = t.chars.as_slice().len();
    compare(s, &rf, got, left, state(&t));
}

/// The comparison itself: `s` is the input the step started from, `left` what the real lexer
/// has left of it, `st` the real lexer's state after the step.
fn compare(s: &[u8], rf: &Lex, got: Option<Result<Token, ErrorCode>>, left: usize, st: (bool, bool)) {
    // C01: consumption never goes backwards / beyond
    assert!(left <= s.len(), "C01/Tokenizer::next/cursor-stays-inside-the-input");
    match got {
        None => {
            assert!(rf.none, "C01/Tokenizer::next/ends-only-on-empty-input-or-final-NL");
        }
        Some(Err(e)) => {
            assert!(!rf.none && rf.err != 0, "C04/Tokenizer::next/well-formed-element-is-not-rejected");
            assert!(class_of(e.get_code()) == class_of(rf.err), "C04/Tokenizer::next/malformed-element-is-rejected-with-an-error-of-its-class");
            assert!(class_of(e.get_code()) == -1 || class_of(e.get_code()) == -2, "C04/Tokenizer::next/lexer-errors-are-command-or-execution-errors");
        }
        Some(Ok(tok)) => {
            assert!(!rf.none && rf.err == 0, "C04/Tokenizer::next/malformed-element-is-not-silently-accepted");
            assert!(left < s.len(), "C01/Tokenizer::next/a-token-strictly-consumes-input");
            assert!(s.len() - left == rf.used, "C04/Tokenizer::next/consumes-exactly-the-element-and-its-trailing-white-space");
            assert!(st == (rf.hdr, rf.com), "C04/Tokenizer::next/header-and-common-state-follow-488.2");
            let ok = match tok {
                Token::HeaderMnemonicSeparator => rf.kind == 0,
                Token::HeaderQuerySuffix => rf.kind == 1,
                Token::ProgramMessageUnitSeparator => rf.kind == 2,
                Token::ProgramHeaderSeparator => rf.kind == 3,
                Token::ProgramDataSeparator => rf.kind == 4,
                Token::ProgramMnemonic(x) => rf.kind == 5 && span_is(x, s, rf.a, rf.b),
                Token::CharacterProgramData(x) => rf.kind == 6 && span_is(x, s, rf.a, rf.b),
                Token::DecimalNumericProgramData(x) => rf.kind == 7 && span_is(x, s, rf.a, rf.b),
                Token::DecimalNumericSuffixProgramData(x, y) => rf.kind == 8 && span_is(x, s, rf.a, rf.b) && span_is(y, s, rf.c, rf.d),
                Token::NonDecimalNumericProgramData(v) => rf.kind == 9 && v == rf.val,
                Token::StringProgramData(x) => rf.kind == 10 && span_is(x, s, rf.a, rf.b),
                Token::ArbitraryBlockData(x) => rf.kind == 11 && span_is(x, s, rf.a, rf.b),
                Token::ExpressionProgramData(x) => rf.kind == 12 && span_is(x, s, rf.a, rf.b),
            };
            assert!(ok, "C04/Tokenizer::next/element-kind-and-payload-are-the-488.2-decomposition");
        }
    }
}

/// Every first byte, every state, every buffer of <= N bytes.
macro_rules! step_any {
    ($name:ident, $n:expr, $unwind:expr) => {
        #[kani::proof]
        #[kani::unwind($unwind)]
        #[kani::stub(lexical_core::parse, stub_parse_len)]
        #[kani::stub(lexical_core::parse_partial_with_options, stub_parse_partial_radix)]
        pub fn $name() {
            let buf: [u8; $n] = kani::any();
            let n: usize = kani::any();
            kani::assume(n <= $n);
            let s = &buf[..n];
            let ih: bool = kani::any();
            let ic: bool = kani::any();
            kani::cover!(n == $n && s[0] == b'#' && s[1] == b'1');
            kani::cover!(n == $n && s[0] == b'"' && s[n - 1] == b'"');
            check_step(s, ih, ic);
        }
    };
}
step_any!(step_any_n2, 2, 10);
step_any!(step_any_n3, 3, 10);
step_any!(step_any_n4, 4, 7);
step_any!(step_any_n5, 5, 10);
step_any!(step_any_n6, 6, 11);

/// Same contract, one harness per value of `in_header` (concrete) — in a header the data
/// readers are never entered, which roughly halves the work of each solver call.
macro_rules! step_state {
    ($name:ident, $n:expr, $unwind:expr, $ih:expr) => {
        #[kani::proof]
        #[kani::unwind($unwind)]
        #[kani::stub(lexical_core::parse, stub_parse_len)]
        #[kani::stub(lexical_core::parse_partial_with_options, stub_parse_partial_radix)]
        pub fn $name() {
            let buf: [u8; $n] = kani::any();
            let n: usize = kani::any();
            kani::assume(n <= $n);
            let s = &buf[..n];
            let ic: bool = kani::any();
            check_step(s, $ih, ic);
        }
    };
}
/// Data position, first byte restricted to one group by assumption (the groups partition all
/// 256 values): the solver then only has to reason about that group's reader.
macro_rules! step_data_group {
    ($name:ident, $n:expr, $unwind:expr, $pred:expr) => {
        #[kani::proof]
        #[kani::unwind($unwind)]
        #[kani::stub(lexical_core::parse, stub_parse_len)]
        #[kani::stub(lexical_core::parse_partial_with_options, stub_parse_partial_radix)]
        pub fn $name() {
            let buf: [u8; $n] = kani::any();
            let n: usize = kani::any();
            kani::assume(n >= 1 && n <= $n);
            let s = &buf[..n];
            let p: fn(u8) -> bool = $pred;
            kani::assume(p(s[0]));
            let ic: bool = kani::any();
            check_step(s, false, ic);
        }
    };
}
fn g_numeric(c: u8) -> bool { is_dig(c) || c == b'+' || c == b'-' || c == b'.' }
fn g_hash(c: u8) -> bool { c == b'#' }
fn g_quote(c: u8) -> bool { c == b'"' || c == b'\'' }
fn g_paren(c: u8) -> bool { c == b'(' }
fn g_alpha(c: u8) -> bool { is_alpha(c) }
fn g_rest(c: u8) -> bool { !(g_numeric(c) || g_hash(c) || g_quote(c) || g_paren(c) || g_alpha(c)) }
step_data_group!(data_numeric_n4, 4, 10, g_numeric);
step_data_group!(data_hash_n4, 4, 10, g_hash);
step_data_group!(data_quote_n4, 4, 10, g_quote);
step_data_group!(data_paren_n4, 4, 10, g_paren);
step_data_group!(data_alpha_n4, 4, 10, g_alpha);
step_data_group!(data_rest_n4, 4, 10, g_rest);
step_data_group!(data_numeric_n5, 5, 10, g_numeric);
step_data_group!(data_hash_n5, 5, 10, g_hash);
step_data_group!(data_quote_n5, 5, 10, g_quote);
step_data_group!(data_paren_n5, 5, 10, g_paren);
step_data_group!(data_alpha_n5, 5, 10, g_alpha);
step_data_group!(data_rest_n5, 5, 10, g_rest);
step_state!(step_header_n4, 4, 6, true);
step_state!(step_data_n4, 4, 6, false);
step_state!(step_header_n5, 5, 7, true);
step_state!(step_header_n6, 6, 8, true);
step_state!(step_data_n5, 5, 7, false);
step_state!(step_data_n6, 6, 8, false);

/// One harness per first-byte class with the first byte CONCRETE (symbolic execution then only
/// walks that class' reader) — deeper bound.
macro_rules! step_class {
    ($name:ident, $first:expr, $n:expr, $unwind:expr) => {
        #[kani::proof]
        #[kani::unwind($unwind)]
        #[kani::stub(lexical_core::parse, stub_parse_len)]
        #[kani::stub(lexical_core::parse_partial_with_options, stub_parse_partial_radix)]
        pub fn $name() {
            let mut buf: [u8; $n] = kani::any();
            buf[0] = $first;
            let n: usize = kani::any();
            kani::assume(n >= 1 && n <= $n);
            let s = &buf[..n];
            let ih: bool = kani::any();
            let ic: bool = kani::any();
            check_step(s, ih, ic);
        }
    };
}
// quick tier: <= 5 bytes per class
step_class!(c5_star, b'*', 5, 10);
step_class!(c5_colon, b':', 5, 10);
step_class!(c5_query, b'?', 5, 10);
step_class!(c5_semicolon, b';', 5, 10);
step_class!(c5_newline, b'\n', 5, 10);
step_class!(c5_comma, b',', 5, 10);
step_class!(c5_space, b' ', 5, 10);
step_class!(c5_tab, b'\t', 5, 10);
step_class!(c5_alpha_lower, b'a', 5, 10);
step_class!(c5_alpha_upper, b'Z', 5, 10);
step_class!(c5_digit, b'7', 5, 10);
step_class!(c5_minus, b'-', 5, 10);
step_class!(c5_plus, b'+', 5, 10);
step_class!(c5_dot, b'.', 5, 10);
step_class!(c5_hash, b'#', 5, 10);
step_class!(c5_dquote, b'"', 5, 10);
step_class!(c5_squote, b'\'', 5, 10);
step_class!(c5_paren, b'(', 5, 10);
step_class!(c5_other, b'$', 5, 10);
step_class!(c5_nonascii, 0xC3, 5, 10);
// thorough tier: <= 8 bytes per class
step_class!(class_star, b'*', 8, 12);
step_class!(class_colon, b':', 8, 12);
step_class!(class_query, b'?', 8, 12);
step_class!(class_semicolon, b';', 8, 12);
step_class!(class_newline, b'\n', 8, 12);
step_class!(class_comma, b',', 8, 12);
step_class!(class_space, b' ', 8, 12);
step_class!(class_alpha_lower, b'a', 8, 12);
step_class!(class_alpha_upper, b'Z', 8, 12);
step_class!(class_digit, b'7', 8, 12);
step_class!(class_minus, b'-', 8, 12);
step_class!(class_dot, b'.', 8, 12);
step_class!(class_hash, b'#', 8, 12);
step_class!(class_dquote, b'"', 8, 12);
step_class!(class_squote, b'\'', 8, 12);
step_class!(class_paren, b'(', 8, 12);
step_class!(class_other, b'$', 8, 12);
step_class!(class_nonascii, 0xC3, 8, 12);

/// 12 / 13 character limits of mnemonic, character data, suffix and common-command mnemonic:
/// elements of exactly 11, 12 and 13 characters, at the end of the input and before `;` —
/// fully concrete inputs (the readers' per-character behaviour is the step contract's matter),
/// compared with the reference step.
fn limit_case(prefix: &[u8], len: usize, tail: Option<u8>, ih: bool) {
    let body: &[u8; 13] = b"AbCdEfGh1jK2m";
    let mut buf = [0u8; 18];
    let mut n = 0;
    let mut i = 0;
    while i < prefix.len() {
        buf[n] = prefix[i];
        n += 1;
        i += 1;
    }
    let mut j = 0;
    while j < len {
        buf[n] = body[j];
        n += 1;
        j += 1;
    }
    if let Some(t) = tail {
        buf[n] = t;
        n += 1;
    }
    check_step(&buf[..n], ih, false);
}
macro_rules! limit12 {
    ($name:ident, $prefix:expr, $ih:expr) => {
        #[kani::proof]
        #[kani::unwind(20)]
        pub fn $name() {
            limit_case($prefix, 11, None, $ih);
            limit_case($prefix, 12, None, $ih);
            limit_case($prefix, 12, Some(b';'), $ih);
            limit_case($prefix, 13, None, $ih);
            limit_case($prefix, 13, Some(b';'), $ih);
        }
    };
}
limit12!(limit_mnemonic, b"", true);
limit12!(limit_character, b"", false);
limit12!(limit_suffix, b"1 ", false);
limit12!(limit_common, b"*", true);


/// Non-decimal literals at the 64-bit boundary with the REAL lexical_core (no stub): the exact
/// value up to 2^64-1, a range error above — concrete inputs (the stubbed step contract assumes
/// that the dependency detects overflow; this obligation checks the assumption at the boundary).
fn nondec(text: &[u8]) -> Option<Result<u64, i16>> {
    let mut t = with_state(text, false, false);
    match t.next() {
        Some(Ok(Token::NonDecimalNumericProgramData(v))) => Some(Ok(v)),
        Some(Err(e)) => Some(Err(e.get_code())),
        _ => None,
    }
}
#[kani::proof]
#[kani::unwind(70)]
pub fn nondecimal_boundary_real_lexical() {
    assert!(nondec(b"#HFFFFFFFFFFFFFFFF") == Some(Ok(u64::MAX)), "C04/Tokenizer::next/#H-literal-of-64-bits-carries-its-exact-value");
    assert!(nondec(b"#H10000000000000000") == Some(Err(-222)), "C04/Tokenizer::next/#H-literal-above-64-bits-is-a-range-error");
    assert!(nondec(b"#Q1777777777777777777777") == Some(Ok(u64::MAX)), "C04/Tokenizer::next/#Q-literal-of-64-bits-carries-its-exact-value");
    assert!(nondec(b"#Q2000000000000000000000") == Some(Err(-222)), "C04/Tokenizer::next/#Q-literal-above-64-bits-is-a-range-error");
    assert!(nondec(b"#Q3777777777777777777777") == Some(Err(-222)), "C04/Tokenizer::next/#Q-literal-above-64-bits-is-a-range-error-(22-digits-leading-3)");
    assert!(nondec(b"#Q0001777777777777777777777") == Some(Ok(u64::MAX)), "C04/Tokenizer::next/#Q-literal-with-leading-zeros-carries-its-exact-value");
    assert!(nondec(b"#B1111111111111111111111111111111111111111111111111111111111111111") == Some(Ok(u64::MAX)), "C04/Tokenizer::next/#B-literal-of-64-bits-carries-its-exact-value");
    assert!(nondec(b"#B11111111111111111111111111111111111111111111111111111111111111111") == Some(Err(-222)), "C04/Tokenizer::next/#B-literal-above-64-bits-is-a-range-error");
    assert!(nondec(b"#hff") == Some(Ok(255)) && nondec(b"#q17") == Some(Ok(15)) && nondec(b"#b101") == Some(Ok(5)), "C04/Tokenizer::next/non-decimal-literals-carry-their-exact-value");
}

/// Very long elements (300 characters, concrete): every reader rejects them with its own error
/// and no counter overflows — the length counters are `u8`.
fn first_err(text: &[u8], ih: bool) -> i16 {
    let mut t = with_state(text, ih, false);
    match t.next() {
        Some(Err(e)) => e.get_code(),
        Some(Ok(_)) => 0,
        None => 1,
    }
}
macro_rules! long_element {
    ($name:ident, $b0:expr, $b1:expr, $ih:expr, $code:expr, $msg:expr) => {
        #[kani::proof]
        #[kani::unwind(262)]
        pub fn $name() {
            // 258 characters: just beyond the range of the readers' u8 length counters
            let mut a = [b'V'; 258];
            a[0] = $b0;
            a[1] = $b1;
            assert!(first_err(&a, $ih) == $code, $msg);
        }
    };
}
long_element!(long_mnemonic, b'V', b'V', true, -112, "C04/Tokenizer::next/258-character-mnemonic-is-112");
long_element!(long_character, b'V', b'V', false, -144, "C04/Tokenizer::next/258-character-character-datum-is-144");
long_element!(long_suffix, b'1', b' ', false, -134, "C04/Tokenizer::next/258-character-suffix-is-134");
long_element!(long_common, b'*', b'V', true, -112, "C04/Tokenizer::next/258-character-common-mnemonic-is-112");


/// Token STREAMS: the real lexer runs over a whole program message carrying its own state from
/// element to element, the reference carries the two flags of the step contract.  Every step
/// must agree, so the step function depends on nothing but (rest of input, in_header,
/// in_common) — state that leaks from one element into the next (a stale flag, a new hidden
/// field) shows up here.  The messages are every ordered pair of element forms (concrete
/// representatives of every data kind, and of every header shape around `;`).
fn check_stream(s: &[u8]) {
    let mut t = Tokenizer::new(s);
    let mut pos = 0usize;
    let (mut ih, mut ic) = (true, false);
    let mut k = 0;
    while k < 10 {
        let rest = &s[pos..];
        let rf = ref_lex(rest, ih, ic);
        let got = t.next();
        let left = t.chars.as_slice().len();
        let stop = !matches!(got, Some(Ok(_)));
        compare(rest, &rf, got, left, state(&t));
        if stop || rf.none || rf.err != 0 {
            return;
        }
        assert!(t.chars.as_slice().as_ptr() == s[pos + rf.used..].as_ptr(), "C04/Tokenizer::next/continues-exactly-after-the-element");
        pos += rf.used;
        ih = rf.hdr;
        ic = rf.com;
        k += 1;
    }
    assert!(false, "C01/Tokenizer::next/a-short-message-has-a-short-token-stream");
}

fn put(buf: &mut [u8; 32], n: &mut usize, seg: &[u8]) {
    let mut i = 0;
    while i < seg.len() {
        buf[*n] = seg[i];
        *n += 1;
        i += 1;
    }
}

macro_rules! stream {
    ($name:ident, $text:expr) => {
        #[kani::proof]
        #[kani::unwind(12)]
        #[kani::stub(lexical_core::parse, stub_parse_len)]
        #[kani::stub(lexical_core::parse_partial_with_options, stub_parse_partial_radix)]
        pub fn $name() {
            check_stream($text);
        }
    };
}
// every data kind, then `,` and a further element
stream!(stream_after_character, b"A B,C");
stream!(stream_after_decimal, b"A 1,C");
stream!(stream_after_suffix, b"A 1 V,C");
stream!(stream_after_nondecimal, b"A #H1F,C");
stream!(stream_after_string, b"A 's',\"t\"");
stream!(stream_after_block, b"A #12ab,C");
stream!(stream_after_expression, b"A (1),C");
// every header shape, then `;` and a compound / common header
stream!(stream_unit_plain, b"A;:B:C");
stream!(stream_unit_common, b"*A;:B:C");
stream!(stream_unit_query, b"A?;*B");
stream!(stream_unit_common_query, b"*A?;B:C?");
stream!(stream_unit_data, b"A 1;:B:C");
stream!(stream_unit_common_data, b"*A 1;B:C 2");
