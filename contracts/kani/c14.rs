use super::spec::*;
use crate::error::{Error, ErrorCode};

#[kani::proof]
pub fn c14_esr_mask_custom() {
    let code: i16 = kani::any();
    let e = ErrorCode::Custom(code, b"x");
    assert!(e.get_code() == code, "C14/ErrorCode::get_code/custom-code-is-reported");
    assert!(e.esr_mask() == spec_class(code), "C14/ErrorCode::esr_mask/class-of-custom-code");
    assert!(Error::new(e).esr_mask() == spec_class(code), "C14/Error::esr_mask/delegates");
    kani::cover!(code == -100);
    kani::cover!(code == 32767);
}

#[kani::proof]
pub fn c14_get_error_lookup() {
    let code: i16 = kani::any();
    if let Some(e) = ErrorCode::get_error(code) {
        assert!(e.get_code() == code, "C14/ErrorCode::get_error/lookup-reports-same-code");
        assert!(e.esr_mask() == spec_class(code), "C14/ErrorCode::esr_mask/class-of-standard-code");
        kani::cover!(code == -350);
    }
}
