//! C14 — every error number maps to the ESR bit of its IEEE 488.2 class.
//! Loop-free, full domain: all 65 536 values of the error number.
use super::spec::*;
use crate::error::{Error, ErrorCode};

/// Custom errors: any 16-bit number, class by century.
#[kani::proof]
#[kani::unwind(8)]
pub fn esr_mask_custom() {
    let code: i16 = kani::any();
    let e = ErrorCode::Custom(code, b"x");
    kani::cover!(code == -100);
    kani::cover!(code == 32767);
    kani::cover!(code == -32768);
    assert!(e.get_code() == code, "C14/ErrorCode::get_code/custom-code-is-reported");
    assert!(e.esr_mask() == spec_class(code), "C14/ErrorCode::esr_mask/class-of-custom-code");
    assert!(Error::new(e).esr_mask() == spec_class(code), "C14/Error::esr_mask/delegates-to-code");
    assert!(Error::custom(code, b"y").get_code() == code, "C14/Error::custom/code-is-reported");
    assert!(Error::custom(code, b"y").esr_mask() == spec_class(code), "C14/Error::custom/class");
    assert!(Error::new(e).extended(b"ext").esr_mask() == spec_class(code), "C14/Error::extended/class-unchanged");
}

/// Standard errors: looking a code up yields the error that reports that same code, and its
/// ESR bit is the class bit of that code.
#[kani::proof]
#[kani::unwind(8)]
pub fn get_error_lookup() {
    let code: i16 = kani::any();
    kani::cover!(ErrorCode::get_error(code).is_some() && code == -350);
    kani::cover!(ErrorCode::get_error(code).is_none());
    if let Some(e) = ErrorCode::get_error(code) {
        assert!(!matches!(e, ErrorCode::Custom(..)), "C14/ErrorCode::get_error/never-custom");
        assert!(e.get_code() == code, "C14/ErrorCode::get_error/lookup-reports-same-code");
        assert!(e.esr_mask() == spec_class(code), "C14/ErrorCode::esr_mask/class-of-standard-code");
        assert!(Error::from(e).get_code() == code, "C14/Error::from/code-preserved");
        assert!(Error::from(e).esr_mask() == spec_class(code), "C14/Error::from/class-preserved");
    }
}

/// The injected function contract on `ErrorCode::esr_mask`
/// (`ensures result == spec_class(self.get_code())`) for an arbitrary error value.
#[kani::proof_for_contract(crate::error::ErrorCode::esr_mask)]
#[kani::unwind(8)]
pub fn esr_mask_contract() {
    let code: i16 = kani::any();
    let e = if kani::any() {
        ErrorCode::Custom(code, b"")
    } else {
        match ErrorCode::get_error(code) {
            Some(e) => e,
            None => ErrorCode::NoError,
        }
    };
    let _ = e.esr_mask();
}

/// Errors the library itself raises: syntax / header / data-type faults are command errors
/// (bit 5, -1xx), value faults are execution errors (bit 4, -2xx).  The numbers are those of
/// SCPI-99 Vol. 1 21.8.
#[kani::proof]
#[kani::unwind(8)]
pub fn library_errors_have_their_standard_class() {
    macro_rules! chk {
        ($v:ident, $code:expr) => {
            assert!(ErrorCode::$v.get_code() == $code, "C14/ErrorCode::get_code/library-raised-error-has-its-SCPI-99-number");
            assert!(ErrorCode::$v.esr_mask() == spec_class($code), "C14/ErrorCode::esr_mask/library-raised-error-has-its-class-bit");
            assert!(ErrorCode::get_error($code) == Some(ErrorCode::$v), "C14/ErrorCode::get_error/number-looks-up-the-same-error");
        };
    }
    chk!(NoError, 0);
    chk!(InvalidCharacter, -101);
    chk!(SyntaxError, -102);
    chk!(InvalidSeparator, -103);
    chk!(DataTypeError, -104);
    chk!(ParameterNotAllowed, -108);
    chk!(MissingParameter, -109);
    chk!(CommandHeaderError, -110);
    chk!(HeaderSeparatorError, -111);
    chk!(ProgramMnemonicTooLong, -112);
    chk!(UndefinedHeader, -113);
    chk!(NumericDataError, -120);
    chk!(InvalidCharacterInNumber, -121);
    chk!(InvalidSuffix, -131);
    chk!(SuffixTooLong, -134);
    chk!(SuffixNotAllowed, -138);
    chk!(InvalidCharacterData, -141);
    chk!(CharacterDataTooLong, -144);
    chk!(StringDataError, -150);
    chk!(InvalidStringData, -151);
    chk!(BlockDataError, -160);
    chk!(InvalidBlockData, -161);
    chk!(ExpressionError, -170);
    chk!(InvalidExpression, -171);
    chk!(ExecutionError, -200);
    chk!(DataOutOfRange, -222);
    chk!(IllegalParameterValue, -224);
    chk!(OutOfMemory, -225);
    chk!(DeviceSpecificError, -300);
    chk!(QueueOverflow, -350);
    chk!(OperationComplete, -800);
    chk!(RequestControl, -700);
    // class bits named in the statement
    assert!(spec_class(-101) == 0x20 && spec_class(-222) == 0x10, "C14/spec/class-bits");
}
