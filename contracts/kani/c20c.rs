//! C20 (scpi-contrib): the repo's own derived enum `NumericValueQuery`.
use super::spec::*;
use crate::scpi1999::NumericValueQuery;
use scpi::error::{Error, ErrorCode};
use scpi::option::ScpiEnum;
use scpi::parser::tokenizer::Token;

#[kani::proof]
#[kani::unwind(14)]
pub fn numeric_value_query_candidates() {
    let c: [u8; 12] = kani::any();
    let n: usize = kani::any();
    kani::assume(n >= 1 && n <= 12);
    let s = &c[..n];
    kani::assume(spec_cand(s));
    let got = NumericValueQuery::from_mnemonic(s);
    let k = match got {
        Some(NumericValueQuery::Maximum) => 1,
        Some(NumericValueQuery::Minimum) => 2,
        Some(NumericValueQuery::Default) => 3,
        None => 0,
    };
    let e = if spec_match(b"MAXimum", s) { 1 } else if spec_match(b"MINimum", s) { 2 } else if spec_match(b"DEFault", s) { 3 } else { 0 };
    assert!(k == e, "C20/NumericValueQuery::from_mnemonic/selects-a-variant-exactly-when-the-datum-matches-its-mnemonic");
    let r = NumericValueQuery::try_from(Token::CharacterProgramData(s));
    if e == 0 {
        assert!(match r { Err(x) => x == Error::new(ErrorCode::IllegalParameterValue), Ok(_) => false }, "C20/NumericValueQuery::try_from/other-character-data-is-224");
    } else {
        assert!(r.is_ok(), "C20/NumericValueQuery::try_from/character-datum-selects-the-variant");
    }
    assert!(bytes_eq(NumericValueQuery::Maximum.mnemonic(), b"MAXimum") && bytes_eq(NumericValueQuery::Minimum.mnemonic(), b"MINimum") && bytes_eq(NumericValueQuery::Default.mnemonic(), b"DEFault"), "C20/NumericValueQuery::mnemonic/attribute-text");
}
