//! C03 — mnemonics match only their short or long form, with the default-1 suffix rule.
//! Domain: every definition of SCPI shape (<= 12 bytes) x every candidate (<= 12 bytes over
//! letters, digits, underscore) — the property's own quantifier; loops are unrolled to that
//! width with unwinding assertions on, so the result is complete for the domain.
use super::spec::*;
use super::vk::*;
use crate::parser::tokenizer::util::{mnemonic_compare, mnemonic_match, mnemonic_split_index};
use crate::parser::tokenizer::Token;

/// Contract of `mnemonic_compare`: requires spec_shape(def) && spec_cand(cand);
/// ensures result == spec_compare(def, cand).
#[kani::proof]
#[kani::unwind(14)]
pub fn mnemonic_compare_contract() {
    let d: [u8; 12] = kani::any();
    let c: [u8; 12] = kani::any();
    let def = any_prefix1(&d);
    let cand = any_prefix1(&c);
    kani::assume(spec_shape(def) && spec_cand(cand));
    kani::cover!(spec_compare(def, cand) && cand.len() < def.len());
    kani::cover!(def.len() == 12 && cand.len() == 12 && spec_compare(def, cand));
    assert!(mnemonic_compare(def, cand) == spec_compare(def, cand), "C03/mnemonic_compare/equals-spec_compare");
}

/// Contract of `mnemonic_split_index`: splits at the start of the maximal trailing digit run,
/// None when there is no such run or nothing before it; the parts are sub-slices of the input.
#[kani::proof]
#[kani::unwind(14)]
pub fn mnemonic_split_index_contract() {
    let c: [u8; 12] = kani::any();
    let s = any_prefix(&c);
    let k = suffix_start(s);
    kani::cover!(k > 0 && k < s.len());
    match mnemonic_split_index(s) {
        None => assert!(k == s.len() || k == 0, "C03/mnemonic_split_index/none-iff-no-suffix-or-all-digits"),
        Some((a, b)) => {
            assert!(k > 0 && k < s.len(), "C03/mnemonic_split_index/some-iff-proper-digit-suffix");
            assert!(a.len() == k && b.len() == s.len() - k, "C03/mnemonic_split_index/split-at-maximal-digit-run");
            assert!(a.as_ptr() == s.as_ptr() && b.as_ptr() == s[k..].as_ptr(), "C03/mnemonic_split_index/parts-are-subslices-of-input");
        }
    }
}

/// Contract of `mnemonic_match`: requires spec_shape(def) && spec_cand(cand);
/// ensures result == spec_match(def, cand).
#[kani::proof]
#[kani::unwind(14)]
pub fn mnemonic_match_contract() {
    let d: [u8; 12] = kani::any();
    let c: [u8; 12] = kani::any();
    let def = any_prefix1(&d);
    let cand = any_prefix1(&c);
    kani::assume(spec_shape(def) && spec_cand(cand));
    kani::cover!(spec_match(def, cand) && cand.len() > def.len());
    kani::cover!(spec_match(def, cand) && cand.len() + 3 < def.len());
    assert!(mnemonic_match(def, cand) == spec_match(def, cand), "C03/mnemonic_match/equals-spec_match");
}

/// The dispatcher's entry: mnemonic and character tokens match by `spec_match`, nothing else does.
#[kani::proof]
#[kani::unwind(14)]
pub fn match_program_header() {
    let d: [u8; 12] = kani::any();
    let c: [u8; 12] = kani::any();
    let def = any_prefix1(&d);
    let cand = any_prefix1(&c);
    kani::assume(spec_shape(def) && spec_cand(cand));
    // leak a 'static view of the definition for the signature (`mnemonic: &'a [u8]`)
    let kind: u8 = kani::any();
    kani::assume(kind < 2);
    let tok = if kind == 0 { Token::ProgramMnemonic(cand) } else { Token::CharacterProgramData(cand) };
    kani::cover!(spec_match(def, cand) && cand.len() < def.len());
    kani::cover!(!spec_match(def, cand));
    assert!(tok.match_program_header(def) == spec_match(def, cand), "C03/Token::match_program_header/equals-spec_match");
}

#[kani::proof]
#[kani::unwind(14)]
pub fn match_program_header_other_tokens() {
    let c: [u8; 4] = kani::any();
    let n: u64 = kani::any();
    let def: &[u8] = b"ABCd1";
    let toks = [
        Token::HeaderMnemonicSeparator,
        Token::HeaderQuerySuffix,
        Token::ProgramMessageUnitSeparator,
        Token::ProgramHeaderSeparator,
        Token::ProgramDataSeparator,
        Token::DecimalNumericProgramData(&c),
        Token::DecimalNumericSuffixProgramData(&c, &c),
        Token::NonDecimalNumericProgramData(n),
        Token::StringProgramData(&c),
        Token::ArbitraryBlockData(&c),
        Token::ExpressionProgramData(&c),
    ];
    let i: usize = kani::any();
    kani::assume(i < toks.len());
    assert!(!toks[i].match_program_header(def), "C03/Token::match_program_header/non-mnemonic-tokens-never-match");
}

/// Concrete corner cases named in the statement (documentation of the oracle; also guards
/// the spec functions themselves against vacuity).
#[kani::proof]
#[kani::unwind(14)]
pub fn corner_cases() {
    assert!(spec_match(b"TRIGger", b"trig") && mnemonic_match(b"TRIGger", b"trig"), "C03/mnemonic_match/short-form");
    assert!(spec_match(b"TRIGger", b"TRIGGER1") && mnemonic_match(b"TRIGger", b"TRIGGER1"), "C03/mnemonic_match/explicit-1-on-candidate");
    assert!(spec_match(b"TRIGger1", b"trig") && mnemonic_match(b"TRIGger1", b"trig"), "C03/mnemonic_match/default-1-on-definition");
    assert!(!spec_match(b"TRIGger", b"trigg") && !mnemonic_match(b"TRIGger", b"trigg"), "C03/mnemonic_match/partial-long-form");
    assert!(!spec_match(b"TRIGger", b"TRIG3") && !mnemonic_match(b"TRIGger", b"TRIG3"), "C03/mnemonic_match/other-suffix");
    assert!(!spec_match(b"TRIGger2", b"TRIG") && !mnemonic_match(b"TRIGger2", b"TRIG"), "C03/mnemonic_match/suffix-2-needs-2");
    assert!(spec_match(b"L125", b"l125") && mnemonic_match(b"L125", b"l125"), "C03/mnemonic_match/L125");
    assert!(!spec_match(b"L125", b"L1") && !mnemonic_match(b"L125", b"L1"), "C03/mnemonic_match/L1-is-not-L125");
    assert!(!spec_compare(b"MAXimum", b"MAXI") && !mnemonic_compare(b"MAXimum", b"MAXI"), "C03/mnemonic_compare/partial");
    assert!(spec_compare(b"MAXimum", b"mAx") && mnemonic_compare(b"MAXimum", b"mAx"), "C03/mnemonic_compare/short-any-case");
}
