//! C06 — a handler sees exactly its own unit's parameters; wrong arity is an error.
//! `Parameters::{next_optional_token, next_token}` are verified with the lexer replaced by its
//! contract (symbolic token script of K tokens, every data element kind, payload slices
//! compared by pointer+length).  The `-108` clause after the handler is `run_tokens`' (C05
//! module, obligation C05/Node::run_tokens/returns-exactly-the-first-error with leftover data).
//! Lexer contract used as precondition: after a `,` the lexer never emits another `,` or `;`
//! (C04 obligation for the `,` class).
use super::kenv::*;
use super::kscript::*;
use scpi::error::{Error, ErrorCode};
use scpi::parser::parameters::Parameters;
use scpi::parser::tokenizer::{Token, Tokenizer};

const K: usize = 4;

fn tok_same(a: &Token, b: &Token) -> bool {
    // same kind, same payload slice (pointer and length), same value
    match (a, b) {
        (Token::CharacterProgramData(x), Token::CharacterProgramData(y))
        | (Token::DecimalNumericProgramData(x), Token::DecimalNumericProgramData(y))
        | (Token::StringProgramData(x), Token::StringProgramData(y))
        | (Token::ArbitraryBlockData(x), Token::ArbitraryBlockData(y))
        | (Token::ExpressionProgramData(x), Token::ExpressionProgramData(y)) => x.as_ptr() == y.as_ptr() && x.len() == y.len(),
        (Token::DecimalNumericSuffixProgramData(x, s), Token::DecimalNumericSuffixProgramData(y, t)) => {
            x.as_ptr() == y.as_ptr() && x.len() == y.len() && s.as_ptr() == t.as_ptr() && s.len() == t.len()
        }
        (Token::NonDecimalNumericProgramData(x), Token::NonDecimalNumericProgramData(y)) => x == y,
        _ => false,
    }
}

/// Reference cursor semantics, from the statement: the handler is offered the maximal run
/// `d1 , d2 , ...` at the cursor; nothing of a following unit; `,` must be followed by data.
/// Returns (kind, new position): kind 0 = Some(token at new_pos-1), 1 = None (absent),
/// 2 = token error at the cursor, 3 = -109 after a dangling `,`.
fn ref_next(script: &[Item; KMAX], pos: usize) -> (u8, usize) {
    if pos >= KMAX {
        return (1, pos);
    }
    match script[pos] {
        None => (1, pos),
        Some(Err(_)) => (2, pos),
        Some(Ok(t)) => {
            if t.is_data() {
                (0, pos + 1)
            } else if t == Token::ProgramDataSeparator {
                let p = pos + 1;
                if p >= KMAX {
                    return (3, p);
                }
                match script[p] {
                    Some(Ok(t2)) if t2.is_data() => (0, p + 1),
                    Some(Err(_)) => (2, p),
                    _ => (3, p),
                }
            } else {
                (1, pos)
            }
        }
    }
}

fn any_item(slot: usize) -> Item {
    let k: u8 = kani::any();
    kani::assume(k < 4);
    match k {
        0 => Some(Ok(any_data_token(slot))),
        1 => Some(Ok(any_nondata_token(slot))),
        2 => Some(Err(ErrorCode::InvalidSeparator)),
        _ => None,
    }
}

#[kani::proof]
#[kani::unwind(5)]
#[kani::stub(<crate::parser::tokenizer::Tokenizer as core::iter::Iterator>::next, stub_next)]
pub fn parameters_cursor() {
    let mut script: [Item; KMAX] = [None; KMAX];
    script[0] = any_item(0);
    script[1] = any_item(1);
    script[2] = any_item(2);
    script[3] = any_item(3);
    // end of input is final
    kani::assume(script[0].is_some() || script[1].is_none());
    kani::assume(script[1].is_some() || script[2].is_none());
    kani::assume(script[2].is_some() || script[3].is_none());
    // lexer contract: `,` is never followed by `,` or `;`
    let mut i = 0;
    while i + 1 < K {
        if let Some(Ok(Token::ProgramDataSeparator)) = script[i] {
            kani::assume(!matches!(script[i + 1], Some(Ok(Token::ProgramDataSeparator)) | Some(Ok(Token::ProgramMessageUnitSeparator))));
        }
        i += 1;
    }
    set_script_arr(script);
    let mut toks = Tokenizer::new_params(b"").peekable();
    let mut params = Parameters::with(&mut toks);
    let mut pos = 0usize;
    let mut pull = 0;
    kani::cover!(matches!(script[0], Some(Ok(t)) if t.is_data()) && matches!(script[1], Some(Ok(Token::ProgramDataSeparator))) && matches!(script[2], Some(Ok(t)) if t.is_data()));
    while pull < 3 {
        let required: bool = kani::any();
        let (kind, np) = ref_next(&script, pos);
        if required {
            let r = params.next_token();
            match kind {
                0 => {
                    assert!(match r { Ok(t) => t.is_data(), Err(_) => true }, "C01/Parameters::next_token/only-data-elements-are-handed-to-conversions");
                    assert!(match r { Ok(t) => tok_same(&t, &script[np - 1].unwrap().unwrap()), Err(_) => false }, "C06/Parameters::next_token/returns-the-next-data-element-of-this-unit-unmodified")
                }
                1 | 3 => assert!(is_err_code(&r, -109), "C06/Parameters::next_token/missing-required-parameter-is-109"),
                _ => assert!(match r { Err(e) => e == Error::new(script[np].unwrap().unwrap_err()), Ok(_) => false }, "C06/Parameters::next_token/lexer-error-is-passed-on"),
            }
        } else {
            let r = params.next_optional_token();
            match kind {
                0 => {
                    assert!(match r { Ok(Some(t)) => t.is_data(), _ => true }, "C01/Parameters::next_optional_token/only-data-elements-are-handed-to-conversions");
                    assert!(match r { Ok(Some(t)) => tok_same(&t, &script[np - 1].unwrap().unwrap()), _ => false }, "C06/Parameters::next_optional_token/returns-the-next-data-element-of-this-unit-unmodified")
                }
                1 => assert!(matches!(r, Ok(None)), "C06/Parameters::next_optional_token/absent-when-the-unit-has-no-further-data"),
                3 => assert!(is_err_code(&r, -109), "C06/Parameters::next_optional_token/dangling-separator-is-109"),
                _ => assert!(match r { Err(e) => e == Error::new(script[np].unwrap().unwrap_err()), _ => false }, "C06/Parameters::next_optional_token/lexer-error-is-passed-on"),
            }
        }
        // never consumes anything that is not data or a data separator of this unit
        if kind == 0 {
            pos = np;
            assert!(super::kscript::pos() == np || super::kscript::pos() == np + 1, "C06/Parameters/consumes-exactly-the-returned-element");
        } else if kind == 1 {
            // nothing consumed beyond what was peeked
            assert!(super::kscript::pos() <= pos + 1, "C06/Parameters/does-not-consume-a-following-unit");
        } else {
            break;
        }
        pull += 1;
    }
}

/// Typed access: next_data / next_optional_data hand the element to the conversion unchanged.
#[derive(Debug, PartialEq, Eq, Clone, Copy)]
pub struct Echo<'a>(Token<'a>);
impl<'a> TryFrom<Token<'a>> for Echo<'a> {
    type Error = Error;
    fn try_from(t: Token<'a>) -> Result<Self, Error> {
        if let Token::StringProgramData(_) = t {
            Err(Error::new(ErrorCode::DataTypeError))
        } else {
            Ok(Echo(t))
        }
    }
}

#[kani::proof]
#[kani::unwind(10)]
#[kani::stub(<crate::parser::tokenizer::Tokenizer as core::iter::Iterator>::next, stub_next)]
pub fn typed_access_delegates() {
    let t = any_data_token(0);
    let present: bool = kani::any();
    let required: bool = kani::any();
    // branch first (constant token kinds on each path)
    if present {
        set_script(&[Some(Ok(t))]);
        let mut toks = Tokenizer::new_params(b"").peekable();
        let mut p = Parameters::with(&mut toks);
        let is_str = matches!(t, Token::StringProgramData(_));
        if required {
            let r = p.next_data::<Echo>();
            if is_str {
                assert!(is_err_code(&r, -104), "C06/Parameters::next_data/conversion-error-is-returned");
            } else {
                assert!(match r { Ok(Echo(x)) => tok_same(&x, &t), _ => false }, "C06/Parameters::next_data/converts-exactly-the-next-element");
            }
        } else {
            let r = p.next_optional_data::<Echo>();
            if is_str {
                assert!(is_err_code(&r, -104), "C06/Parameters::next_optional_data/conversion-error-is-returned");
            } else {
                assert!(match r { Ok(Some(Echo(x))) => tok_same(&x, &t), _ => false }, "C06/Parameters::next_optional_data/converts-exactly-the-next-element");
            }
        }
    } else {
        set_script(&[Some(Ok(Token::ProgramMessageUnitSeparator)), Some(Ok(t))]);
        let mut toks = Tokenizer::new_params(b"").peekable();
        let mut p = Parameters::with(&mut toks);
        if required {
            assert!(is_err_code(&p.next_data::<Echo>(), -109), "C06/Parameters::next_data/missing-is-109-never-an-element-of-the-next-unit");
        } else {
            assert!(matches!(p.next_optional_data::<Echo>(), Ok(None)), "C06/Parameters::next_optional_data/absent-never-an-element-of-the-next-unit");
        }
        assert!(pos() <= 1, "C06/Parameters/does-not-consume-a-following-unit");
    }
}
