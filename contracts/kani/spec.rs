//! Executable specification functions. Written from the property statements and the
//! IEEE 488.2 / SCPI-99 text, with plain index loops and no code shared with /repo.
#![allow(dead_code)]

/// IEEE 488.2 11.5.1 / SCPI-99 21.8: Standard Event Status bit of an error/event number.
pub fn spec_class(code: i16) -> u8 {
    let c = code as i32;
    if c <= 0 && c > -100 {
        0x00
    } else if c <= -100 && c > -200 {
        0x20
    } else if c <= -200 && c > -300 {
        0x10
    } else if c <= -300 && c > -400 {
        0x08
    } else if c <= -400 && c > -500 {
        0x04
    } else if c <= -500 && c > -600 {
        0x80
    } else if c <= -600 && c > -700 {
        0x40
    } else if c <= -700 && c > -800 {
        0x02
    } else if c <= -800 && c > -900 {
        0x01
    } else {
        0x08
    }
}

// ------------------------------------------------------------------------------------------
// C03: SCPI-99 Vol.1 6.2.1 (long/short form), 6.2.5.2 (numeric suffix, default 1)
// ------------------------------------------------------------------------------------------
pub fn is_up(b: u8) -> bool {
    b >= b'A' && b <= b'Z'
}
pub fn is_low(b: u8) -> bool {
    b >= b'a' && b <= b'z'
}
pub fn is_dig(b: u8) -> bool {
    b >= b'0' && b <= b'9'
}
pub fn to_low(b: u8) -> u8 {
    if is_up(b) {
        b + 32
    } else {
        b
    }
}
/// Case-insensitive equality of two byte strings.
pub fn eq_ic(a: &[u8], b: &[u8]) -> bool {
    if a.len() != b.len() {
        return false;
    }
    let mut i = 0;
    while i < a.len() {
        if to_low(a[i]) != to_low(b[i]) {
            return false;
        }
        i += 1;
    }
    true
}
/// Start of the maximal trailing digit run.
pub fn suffix_start(s: &[u8]) -> usize {
    let mut i = s.len();
    while i > 0 && is_dig(s[i - 1]) {
        i -= 1;
    }
    i
}
/// Length of the leading upper-case run (the short form of a definition's alphabetic part).
pub fn short_len(s: &[u8]) -> usize {
    let mut i = 0;
    while i < s.len() && is_up(s[i]) {
        i += 1;
    }
    i
}
/// Definition of SCPI shape: 1-12 chars, `[A-Z]+[a-z]*[0-9]*`, suffix without leading zero.
pub fn spec_shape(def: &[u8]) -> bool {
    if def.is_empty() || def.len() > 12 {
        return false;
    }
    let k = suffix_start(def);
    let u = short_len(&def[..k]);
    if u == 0 {
        return false;
    }
    let mut i = u;
    while i < k {
        if !is_low(def[i]) {
            return false;
        }
        i += 1;
    }
    !(def.len() - k > 1 && def[k] == b'0') && !(def.len() - k == 1 && def[k] == b'0')
}
/// Candidate: 1-12 chars over letters, digits, underscore; a numeric suffix has no leading zero.
pub fn spec_cand(s: &[u8]) -> bool {
    if s.is_empty() || s.len() > 12 {
        return false;
    }
    let mut i = 0;
    while i < s.len() {
        let c = s[i];
        if !(is_up(c) || is_low(c) || is_dig(c) || c == b'_') {
            return false;
        }
        i += 1;
    }
    let k = suffix_start(s);
    !(s.len() - k > 1 && s[k] == b'0')
}
/// Keyword comparison: `cand` is the complete long form, or the short form, ignoring case.
/// A definition that carries digits only matches spelled out in full.
pub fn spec_compare(def: &[u8], cand: &[u8]) -> bool {
    if eq_ic(cand, def) {
        return true;
    }
    let k = suffix_start(def);
    k == def.len() && eq_ic(cand, &def[..short_len(def)])
}
fn suffix_or_one(s: &[u8], k: usize) -> &[u8] {
    if k == s.len() || k == 0 {
        b"1"
    } else {
        &s[k..]
    }
}
/// Header / character-data match with the default-1 suffix rule.
pub fn spec_match(def: &[u8], cand: &[u8]) -> bool {
    let kd = suffix_start(def);
    let mut kc = suffix_start(cand);
    if kc == 0 {
        // all digits: no alphabetic part at all, cannot match a definition
        kc = cand.len();
    }
    let ad = &def[..kd];
    let ac = &cand[..kc];
    let alpha_ok = eq_ic(ac, ad) || eq_ic(ac, &ad[..short_len(ad)]);
    let sd = suffix_or_one(def, kd);
    let sc = suffix_or_one(cand, kc);
    alpha_ok && sd.len() == sc.len() && eq_ic(sd, sc)
}

// ------------------------------------------------------------------------------------------
// Response elements: independent encoders/decoders (IEEE 488.2 8.7)
// ------------------------------------------------------------------------------------------
/// Canonical NR1 text of an integer: optional '-', no leading zeros.  Returns the length used.
/// Values of magnitude below 10^9 (everything the 8/16-bit obligations need) are computed in
/// 32-bit arithmetic with a fixed number of steps; wider values fall back to 128-bit arithmetic.
pub fn spec_dec(v: i128, buf: &mut [u8; 40]) -> usize {
    if v > -1_000_000_000 && v < 1_000_000_000 {
        return spec_dec32(v as i32, buf);
    }
    spec_dec_wide(v, buf)
}
/// 32-bit arithmetic, fixed 10 steps; requires |v| < 10^9.
pub fn spec_dec32(v: i32, buf: &mut [u8; 40]) -> usize {
    {
        let neg = v < 0;
        let mut m: u32 = if neg { (-(v as i64)) as u32 } else { v as u32 };
        let mut tmp = [b'0'; 10];
        let mut n = 0;
        let mut i = 0;
        while i < 10 {
            if m > 0 || i == 0 {
                tmp[i] = b'0' + (m % 10) as u8;
                m /= 10;
                n = i + 1;
            }
            i += 1;
        }
        let mut k = 0;
        if neg {
            buf[0] = b'-';
            k = 1;
        }
        let mut i = 0;
        while i < 10 {
            if i < n {
                buf[k + i] = tmp[n - 1 - i];
            }
            i += 1;
        }
        return k + n;
    }
}
pub fn spec_dec_wide(v: i128, buf: &mut [u8; 40]) -> usize {
    let mut tmp = [0u8; 40];
    let mut n = 0;
    let neg = v < 0;
    let mut m: u128 = if neg { (-(v + 1)) as u128 + 1 } else { v as u128 };
    while m > 0 {
        tmp[n] = b'0' + (m % 10) as u8;
        m /= 10;
        n += 1;
    }
    let mut k = 0;
    if neg {
        buf[0] = b'-';
        k = 1;
    }
    let mut i = 0;
    while i < n {
        buf[k + i] = tmp[n - 1 - i];
        i += 1;
    }
    k + n
}
/// Decode an NR1 response element: `[+-]?digits`.
pub fn spec_parse_dec(s: &[u8]) -> Option<i128> {
    let mut i = 0;
    let mut neg = false;
    if i < s.len() && (s[i] == b'-' || s[i] == b'+') {
        neg = s[i] == b'-';
        i += 1;
    }
    if i >= s.len() {
        return None;
    }
    let mut v: i128 = 0;
    while i < s.len() {
        if !is_dig(s[i]) {
            return None;
        }
        v = v * 10 + (s[i] - b'0') as i128;
        i += 1;
    }
    Some(if neg { -v } else { v })
}
/// Decode an unsigned NR1 element of at most 5 digits (loop bound independent of the input).
pub fn spec_parse_dec5(s: &[u8]) -> Option<u32> {
    if s.is_empty() || s.len() > 5 {
        return None;
    }
    let mut v: u32 = 0;
    let mut i = 0;
    while i < 5 {
        if i < s.len() {
            if !is_dig(s[i]) {
                return None;
            }
            v = v * 10 + (s[i] - b'0') as u32;
        }
        i += 1;
    }
    Some(v)
}
pub fn bytes_eq(a: &[u8], b: &[u8]) -> bool {
    if a.len() != b.len() {
        return false;
    }
    let mut i = 0;
    while i < a.len() {
        if a[i] != b[i] {
            return false;
        }
        i += 1;
    }
    true
}

// ------------------------------------------------------------------------------------------
// C15 / C16: IEEE 488.2 11 status model, SCPI-99 Vol.1 20 (STATus)
// ------------------------------------------------------------------------------------------
/// Bits latched into the event register by one condition update, per transition filter.
pub fn spec_latch(old_cond: u16, new_cond: u16, ptr: u16, ntr: u16) -> u16 {
    let mut r = 0u16;
    let mut b = 0;
    while b < 16 {
        let m = 1u16 << b;
        let was = old_cond & m != 0;
        let is = new_cond & m != 0;
        if !was && is && (ptr & m != 0) {
            r |= m;
        }
        if was && !is && (ntr & m != 0) {
            r |= m;
        }
        b += 1;
    }
    r
}
/// Summary of an event-register set as used by the status byte (bit 15 never takes part).
pub fn spec_summary(condition: u16, enable: u16) -> bool {
    let mut b = 0;
    while b < 15 {
        let m = 1u16 << b;
        if condition & m != 0 && enable & m != 0 {
            return true;
        }
        b += 1;
    }
    false
}
/// IEEE 488.2 11.2 status byte with master summary status in bit 6.
pub fn spec_stb(queue_nonempty: bool, ques: bool, oper: bool, mav: bool, esr: u8, ese: u8, sre: u8) -> u8 {
    let mut stb = 0u8;
    if queue_nonempty {
        stb |= 1 << 2;
    }
    if ques {
        stb |= 1 << 3;
    }
    if mav {
        stb |= 1 << 4;
    }
    if esr & ese != 0 {
        stb |= 1 << 5;
    }
    if oper {
        stb |= 1 << 7;
    }
    // MSS: any reported bit other than bit 6 enabled in SRE
    if stb & sre & 0xBF != 0 {
        stb |= 1 << 6;
    }
    stb
}

// ------------------------------------------------------------------------------------------
// C07: nearest-integer conversion of a decimal literal's (double / single) value
// ------------------------------------------------------------------------------------------
const TWO53: f64 = 9007199254740992.0;
/// For a non-NaN `v` and an integer type [min, max]: (must_be_ok, must_be_range_error).
/// Both false only at an exact tie on a type bound (v == min-0.5 or v == max+0.5), where the
/// statement allows either neighbour.
pub fn spec_round_range(v: f64, min: i128, max: i128) -> (bool, bool) {
    if v.is_infinite() {
        return (false, true);
    }
    let big = v >= TWO53 || v <= -TWO53;
    if big {
        // integer-valued: no ties; saturating cast is exact below 2^127 and saturates above
        let vi = v as i128;
        let inr = vi >= min && vi <= max;
        return (inr, !inr);
    }
    let lim = TWO53 as i128;
    let lo_ok = min < -lim || v > (min as f64) - 0.5;
    let hi_ok = max > lim || v < (max as f64) + 0.5;
    let lo_out = !(min < -lim) && v < (min as f64) - 0.5;
    let hi_out = !(max > lim) && v > (max as f64) + 0.5;
    (lo_ok && hi_ok, lo_out || hi_out)
}
/// `i` is a nearest integer of `v` (ties either way), judged at the resolution of a double,
/// or of a single when `single`.
pub fn spec_near(i: i128, v: f64, single: bool) -> bool {
    if v.is_infinite() || v != v {
        return false;
    }
    let big = v >= TWO53 || v <= -TWO53;
    if big {
        return i == v as i128;
    }
    let lim = TWO53 as i128;
    if i > lim || i < -lim {
        return false;
    }
    if single {
        let d = (i as f32) - (v as f32);
        d >= -0.5 && d <= 0.5
    } else {
        let d = (i as f64) - v;
        d >= -0.5 && d <= 0.5
    }
}
