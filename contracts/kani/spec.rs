//! Executable specification functions. Written from the property statements and the
//! IEEE 488.2 / SCPI-99 text, with plain index loops and no code shared with /repo.
#![allow(dead_code)]

/// IEEE 488.2 11.5.1 / SCPI-99 21.8: Standard Event Status bit of an error/event number.
pub fn spec_class(code: i16) -> u8 {
    let c = code as i32;
    if c <= 0 && c > -100 {
        0x00
    } else if c <= -100 && c > -200 {
        0x20
    } else if c <= -200 && c > -300 {
        0x10
    } else if c <= -300 && c > -400 {
        0x08
    } else if c <= -400 && c > -500 {
        0x04
    } else if c <= -500 && c > -600 {
        0x80
    } else if c <= -600 && c > -700 {
        0x40
    } else if c <= -700 && c > -800 {
        0x02
    } else if c <= -800 && c > -900 {
        0x01
    } else {
        0x08
    }
}
