//! cfg(kani)-only child module of `scpi::parser::tokenizer` (appended to the SCRATCH copy):
//! the lexer's two state flags are private, a step contract "from any lexer state" needs to set
//! and read them.
use super::Tokenizer;

pub fn with_state<'a>(buf: &'a [u8], in_header: bool, in_common: bool) -> Tokenizer<'a> {
    let mut t = Tokenizer::new(buf);
    t.in_header = in_header;
    t.in_common = in_common;
    t
}
pub fn state(t: &Tokenizer) -> (bool, bool) {
    (t.in_header, t.in_common)
}
