//! C19 — channel lists and numeric lists parse to exactly the SCPI-denoted entries.
//! `next()` of ChannelList / NumericList / ChannelSpecIterator is compared, step by step, with
//! a reference written from SCPI-99 Vol.1 8.3.1/8.3.2 (grammar + the error cases named in the
//! statement), for every expression text up to N bytes.  BOUNDED in N.
//! `lexical_core::parse_partial::<isize>` is replaced by its assumed contract (klex.rs).
use super::klex::*;
use super::spec::*;
use super::vk::*;
use scpi::error::{Error, ErrorCode};
use scpi::parser::expression::channel_list::{self, ChannelList, ChannelSpec};
use scpi::parser::expression::numeric_list::{self, NumericList};
use scpi::parser::tokenizer::Token;

fn is_spec_char(c: u8) -> bool {
    is_dig(c) || c == b'+' || c == b'-' || c == b'!'
}

// ---------------------------------------------------------------- channel specs
/// Reference: the j-th dimension of a spec text `n1!n2!...`; Err if the j-th number is missing
/// or malformed; None past the end.  Returns (kind, value, next position): kind 0 value,
/// 1 error, 2 end.
fn ref_spec_item(s: &[u8], pos: usize) -> (u8, i128, usize) {
    if pos >= s.len() {
        return (2, 0, pos);
    }
    let mut i = pos;
    if s[i] == b'!' {
        i += 1;
    }
    let mut neg = false;
    if i < s.len() && (s[i] == b'+' || s[i] == b'-') {
        neg = s[i] == b'-';
        i += 1;
    }
    let start = i;
    let mut v: i128 = 0;
    while i < s.len() && is_dig(s[i]) {
        v = v * 10 + (s[i] - b'0') as i128;
        i += 1;
    }
    if i == start {
        return (1, 0, pos);
    }
    (0, if neg { -v } else { v }, i)
}

fn first_spec(text: &[u8]) -> Option<ChannelSpec> {
    match ChannelList::new(text) {
        Some(mut l) => match l.next() {
            Some(Ok(channel_list::Token::ChannelSpec(s))) => Some(s),
            _ => None,
        },
        None => None,
    }
}

/// Iterating a spec yields its dimensions in order; a malformed dimension is an error when
/// reached (never a panic); `dimension()` is the number of `!` plus one.
#[kani::proof]
#[kani::unwind(9)]
#[kani::stub(lexical_core::parse_partial, stub_parse_partial)]
pub fn channel_spec_iteration() {
    let mut text = [b'@', 0, 0, 0, 0, 0];
    let body: [u8; 5] = kani::any();
    let n: usize = kani::any();
    kani::assume(n >= 1 && n <= 5);
    let mut i = 0;
    while i < 5 {
        if i < n {
            kani::assume(is_spec_char(body[i]));
            text[1 + i] = body[i];
        }
        i += 1;
    }
    kani::assume(body[0] != b'!');
    let s = &text[..1 + n];
    kani::cover!(n == 4 && body[1] == b'!' && body[2] == b'!');
    kani::cover!(n == 5 && body[1] == b'!' && body[3] == b'!');
    let spec = first_spec(s);
    assert!(spec.is_some(), "C19/ChannelList::next/a-run-of-spec-characters-is-one-channel-spec");
    let spec = spec.unwrap();
    let mut bangs = 0;
    i = 0;
    while i < 5 {
        if i < n && body[i] == b'!' {
            bangs += 1;
        }
        i += 1;
    }
    assert!(spec.dimension() == bangs + 1 && spec.len() == bangs + 1, "C19/ChannelSpec::dimension/number-of-dimensions-matches-the-text");
    let mut it = spec.into_iter();
    let mut pos = 0usize;
    let mut k = 0;
    while k < 4 {
        let (kind, val, np) = ref_spec_item(&s[1..], pos);
        let got = it.next();
        match kind {
            0 => assert!(got == Some(Ok(val as isize)), "C19/ChannelSpecIterator::next/yields-the-dimensions-in-order"),
            1 => {
                assert!(matches!(got, Some(Err(_))), "C19/ChannelSpecIterator::next/malformed-dimension-is-an-error-when-reached");
                break;
            }
            _ => {
                assert!(got.is_none(), "C19/ChannelSpecIterator::next/ends-after-the-last-dimension");
                break;
            }
        }
        pos = np;
        k += 1;
    }
}

/// Conversions to isize / pairs / triples take successive dimensions of the text.
#[kani::proof]
#[kani::unwind(9)]
#[kani::stub(lexical_core::parse_partial, stub_parse_partial)]
pub fn channel_spec_conversions() {
    let d: [u8; 3] = kani::any();
    kani::assume(d[0] < 10 && d[1] < 10 && d[2] < 10);
    let dims: u8 = kani::any();
    kani::assume(dims >= 1 && dims <= 3);
    let t3 = [b'@', b'0' + d[0], b'!', b'0' + d[1], b'!', b'0' + d[2]];
    let s = &t3[..2 * dims as usize];
    let spec = first_spec(s).unwrap();
    kani::cover!(dims == 2 && d[0] != d[1]);
    let one = isize::try_from(spec);
    let two = <(isize, isize)>::try_from(spec);
    let three = <(isize, isize, isize)>::try_from(spec);
    let utwo = <(usize, usize)>::try_from(spec);
    let uthree = <(usize, usize, usize)>::try_from(spec);
    let uone = usize::try_from(spec);
    if dims == 1 {
        assert!(one == Ok(d[0] as isize) && uone == Ok(d[0] as usize), "C19/ChannelSpec::try_into/one-dimension-gives-its-number");
        assert!(two.is_err() && three.is_err(), "C19/ChannelSpec::try_into/dimension-mismatch-is-an-error");
    } else if dims == 2 {
        assert!(two == Ok((d[0] as isize, d[1] as isize)), "C19/ChannelSpec::try_into/pair-takes-successive-dimensions");
        assert!(utwo == Ok((d[0] as usize, d[1] as usize)), "C19/ChannelSpec::try_into/unsigned-pair-takes-successive-dimensions");
        assert!(one.is_err() && three.is_err(), "C19/ChannelSpec::try_into/dimension-mismatch-is-an-error");
    } else {
        assert!(three == Ok((d[0] as isize, d[1] as isize, d[2] as isize)), "C19/ChannelSpec::try_into/triple-takes-successive-dimensions");
        assert!(uthree == Ok((d[0] as usize, d[1] as usize, d[2] as usize)), "C19/ChannelSpec::try_into/unsigned-triple-takes-successive-dimensions");
        assert!(one.is_err() && two.is_err(), "C19/ChannelSpec::try_into/dimension-mismatch-is-an-error");
    }
}

// ---------------------------------------------------------------- channel lists
/// Reference step of a channel list.  kind: 0 spec, 1 range, 2 path, 3 error, 4 end.
/// For spec/range: (a,b) / (c,d) are the byte spans; for path the content span.
struct ChStep {
    kind: u8,
    a: usize,
    b: usize,
    c: usize,
    d: usize,
    next: usize,
}
fn ref_channel_step(s: &[u8], mut pos: usize, first: bool) -> ChStep {
    let end = ChStep { kind: 4, a: 0, b: 0, c: 0, d: 0, next: pos };
    let err = ChStep { kind: 3, a: 0, b: 0, c: 0, d: 0, next: pos };
    if pos >= s.len() {
        return end;
    }
    if s[pos] == b',' {
        if first {
            return err;
        }
        pos += 1;
        if pos >= s.len() {
            return ChStep { kind: 4, a: 0, b: 0, c: 0, d: 0, next: pos };
        }
    }
    let c0 = s[pos];
    if is_dig(c0) || c0 == b'+' || c0 == b'-' {
        let a = pos;
        while pos < s.len() && is_spec_char(s[pos]) {
            pos += 1;
        }
        let b = pos;
        if pos < s.len() && s[pos] == b':' {
            pos += 1;
            let c = pos;
            while pos < s.len() && is_spec_char(s[pos]) {
                pos += 1;
            }
            let d = pos;
            if d == c {
                return ChStep { kind: 3, a: 0, b: 0, c: 0, d: 0, next: pos };
            }
            let mut d1 = 0;
            let mut d2 = 0;
            let mut i = a;
            while i < b {
                if s[i] == b'!' {
                    d1 += 1;
                }
                i += 1;
            }
            i = c;
            while i < d {
                if s[i] == b'!' {
                    d2 += 1;
                }
                i += 1;
            }
            if d1 != d2 {
                return ChStep { kind: 3, a: 0, b: 0, c: 0, d: 0, next: pos };
            }
            return ChStep { kind: 1, a, b, c, d, next: pos };
        }
        return ChStep { kind: 0, a, b, c: 0, d: 0, next: pos };
    }
    if c0 == b'"' || c0 == b'\'' {
        // 488.2 string: closing quote not followed by the same quote
        let a = pos + 1;
        let mut i = a;
        loop {
            if i >= s.len() {
                return ChStep { kind: 3, a: 0, b: 0, c: 0, d: 0, next: pos };
            }
            if s[i] == c0 {
                if i + 1 < s.len() && s[i + 1] == c0 {
                    i += 2;
                    continue;
                }
                // after the closing quote only a separator (optionally after white space) or
                // the end may follow (488.2 string data rule, as in a program message)
                let mut q = i + 1;
                while q < s.len() && (s[q] == b' ' || s[q] == b'\t' || s[q] == b'\n' || s[q] == 0x0C || s[q] == b'\r') {
                    q += 1;
                }
                if q < s.len() && s[q] != b',' && s[q] != b';' && s[q] != b'\n' {
                    return ChStep { kind: 3, a: 0, b: 0, c: 0, d: 0, next: pos };
                }
                return ChStep { kind: 2, a, b: i, c: 0, d: 0, next: i + 1 };
            }
            if s[i] >= 0x80 {
                return ChStep { kind: 3, a: 0, b: 0, c: 0, d: 0, next: pos };
            }
            i += 1;
        }
    }
    err
}

fn span_is(x: &[u8], s: &[u8], a: usize, b: usize) -> bool {
    x.as_ptr() == s[a..].as_ptr() && x.len() == b - a
}

/// Step contract: one `next()` from ANY iterator state (any remaining text of <= N bytes,
/// `first` either way).  Lists of any number of entries follow by induction on the remaining text.
macro_rules! channel_list_harness {
    ($name:ident, $n:expr, $unwind:expr) => {
        #[kani::proof]
        #[kani::unwind($unwind)]
        #[kani::stub(lexical_core::parse_partial, stub_parse_partial)]
        pub fn $name() {
            let body: [u8; $n] = kani::any();
            let n: usize = kani::any();
            kani::assume(n <= $n);
            let body_s = &body[..n];
            let first: bool = kani::any();
            let mut l = ChannelList { chars: body_s.iter(), first };
            kani::cover!(n == $n && body[1] == b':' && !first);
            kani::cover!(n >= 3 && body[0] == b',' && body[1] == b'\'');
            let st = ref_channel_step(body_s, 0, first);
            let got = l.next();
            match st.kind {
                4 => assert!(got.is_none(), "C19/ChannelList::next/ends-when-the-text-is-exhausted"),
                3 => assert!(matches!(got, Some(Err(_))), "C19/ChannelList::next/error-at-the-first-offending-position"),
                0 => {
                    assert!(match &got { Some(Ok(channel_list::Token::ChannelSpec(sp))) => {
                        let mut bangs = 0; let mut j = st.a; while j < st.b { if body_s[j] == b'!' { bangs += 1; } j += 1; } sp.dimension() == bangs + 1 }, _ => false },
                        "C19/ChannelList::next/single-spec-with-its-dimension-count");
                }
                1 => {
                    assert!(match &got { Some(Ok(channel_list::Token::ChannelRange(p, q))) => p.dimension() == q.dimension(), _ => false },
                        "C19/ChannelList::next/range-with-both-ends-of-equal-dimension");
                }
                _ => {
                    assert!(match &got { Some(Ok(channel_list::Token::PathName(p))) => span_is(p, body_s, st.a, st.b), _ => false },
                        "C19/ChannelList::next/quoted-path-name-with-its-exact-content");
                }
            }
            if st.kind <= 2 {
                assert!(l.chars.as_slice().len() == body_s.len() - st.next, "C19/ChannelList::next/cursor-advances-past-exactly-this-entry");
                assert!(l.chars.as_slice().len() < body_s.len(), "C19/ChannelList::next/an-entry-consumes-input");
                assert!(!l.first, "C19/ChannelList::next/later-entries-need-a-separator");
            }
        }
    };
}
channel_list_harness!(channel_list_n4, 4, 7);
channel_list_harness!(channel_list_n6, 6, 9);

/// `ChannelList::new` accepts exactly expressions that start with `@`.
#[kani::proof]
#[kani::unwind(4)]
pub fn channel_list_new() {
    let body: [u8; 2] = kani::any();
    let s = any_prefix(&body);
    match ChannelList::new(s) {
        Some(l) => assert!(s.len() >= 1 && s[0] == b'@' && l.first && l.chars.as_slice().len() == s.len() - 1, "C19/ChannelList::new/starts-after-the-@"),
        None => assert!(s.is_empty() || s[0] != b'@', "C19/ChannelList::new/only-@-expressions-are-channel-lists"),
    }
}

// ---------------------------------------------------------------- numeric lists
/// IEEE 488.2 7.7.2 NRf at `pos`: returns end position or None if malformed.
fn ref_nrf(s: &[u8], mut pos: usize) -> Option<usize> {
    if pos < s.len() && (s[pos] == b'+' || s[pos] == b'-') {
        pos += 1;
    }
    let d0 = pos;
    while pos < s.len() && is_dig(s[pos]) {
        pos += 1;
    }
    let lead = pos > d0;
    if pos < s.len() && s[pos] == b'.' {
        pos += 1;
        let f0 = pos;
        while pos < s.len() && is_dig(s[pos]) {
            pos += 1;
        }
        if pos == f0 && !lead {
            return None;
        }
    } else if !lead {
        return None;
    }
    if pos < s.len() && (s[pos] == b'E' || s[pos] == b'e') {
        pos += 1;
        if pos < s.len() && (s[pos] == b'+' || s[pos] == b'-') {
            pos += 1;
        }
        let e0 = pos;
        while pos < s.len() && is_dig(s[pos]) {
            pos += 1;
        }
        if pos == e0 {
            return None;
        }
    }
    Some(pos)
}

/// Reference step of a numeric list: every entry but the first must be introduced by `,`;
/// an entry is NRf or NRf:NRf.  kind 0 single (a..b), 1 range (a..b, c..d), 3 error, 4 end.
fn ref_numeric_step(s: &[u8], mut pos: usize, first: bool) -> ChStep {
    if pos >= s.len() {
        return ChStep { kind: 4, a: 0, b: 0, c: 0, d: 0, next: pos };
    }
    let err = ChStep { kind: 3, a: 0, b: 0, c: 0, d: 0, next: pos };
    if !first {
        if s[pos] != b',' {
            return err;
        }
        pos += 1;
    } else if s[pos] == b',' {
        return err;
    }
    let a = pos;
    let b = match ref_nrf(s, pos) {
        Some(e) => e,
        None => return err,
    };
    pos = b;
    if pos < s.len() && s[pos] == b':' {
        pos += 1;
        let c = pos;
        let d = match ref_nrf(s, pos) {
            Some(e) => e,
            None => return err,
        };
        return ChStep { kind: 1, a, b, c, d, next: d };
    }
    ChStep { kind: 0, a, b, c: 0, d: 0, next: pos }
}

fn num_is(t: &Token, s: &[u8], a: usize, b: usize) -> bool {
    match t {
        Token::DecimalNumericProgramData(x) => span_is(x, s, a, b),
        _ => false,
    }
}

/// Step contract: one `next()` from ANY iterator state.
macro_rules! numeric_list_harness {
    ($name:ident, $n:expr, $unwind:expr) => {
        #[kani::proof]
        #[kani::unwind($unwind)]
        pub fn $name() {
            let body: [u8; $n] = kani::any();
            let s = any_prefix(&body);
            let first: bool = kani::any();
            let mut l = NumericList::new(s);
            l.first = first;
            kani::cover!(s.len() == $n && !first && s[0] == b',' && s[2] == b':');
            kani::cover!(s.len() >= 2 && !first && s[0] == b'-' && s[1] == b'2');
            kani::cover!(s.len() >= 2 && first && s[0] == b'.' && s[1] == b'5');
            let st = ref_numeric_step(s, 0, first);
            let got = l.next();
            match st.kind {
                4 => assert!(got.is_none(), "C19/NumericList::next/ends-when-the-text-is-exhausted"),
                3 => assert!(matches!(got, Some(Err(_))), "C19/NumericList::next/missing-separator-leading-or-doubled-comma-third-range-end-or-foreign-character-is-an-error"),
                0 => assert!(match &got { Some(Ok(numeric_list::Token::Numeric(t))) => num_is(t, s, st.a, st.b), _ => false }, "C19/NumericList::next/single-value-with-its-exact-text"),
                _ => assert!(match &got { Some(Ok(numeric_list::Token::NumericRange(t, u))) => num_is(t, s, st.a, st.b) && num_is(u, s, st.c, st.d), _ => false }, "C19/NumericList::next/range-with-both-ends"),
            }
            if st.kind <= 1 {
                assert!(l.tokenizer.chars.as_slice().len() == s.len() - st.next, "C19/NumericList::next/cursor-advances-past-exactly-this-entry");
                assert!(!l.first, "C19/NumericList::next/later-entries-need-a-separator");
            }
        }
    };
}
numeric_list_harness!(numeric_list_n4, 4, 7);
numeric_list_harness!(numeric_list_n6, 6, 9);
