//! Reference lexer step, written from IEEE 488.2-1992 section 7 (and the rules of the
//! statement of C04): one syntactic element from a cursor, given the two lexer state flags.
//! Plain index arithmetic, no code shared with /repo.
use super::spec::*;

#[derive(Clone, Copy)]
pub struct Lex {
    pub none: bool,
    /// 0: a token; otherwise the SCPI error number
    pub err: i16,
    /// 0 ':' 1 '?' 2 ';' 3 header-separator 4 ',' 5 mnemonic 6 character 7 decimal
    /// 8 decimal+suffix 9 non-decimal 10 string 11 block 12 expression
    pub kind: u8,
    pub a: usize,
    pub b: usize,
    pub c: usize,
    pub d: usize,
    pub val: u64,
    pub used: usize,
    pub hdr: bool,
    pub com: bool,
}

pub fn is_ws(c: u8) -> bool {
    c == b' ' || c == b'\t' || c == b'\n' || c == 0x0C || c == b'\r'
}
pub fn is_alpha(c: u8) -> bool {
    is_up(c) || is_low(c)
}
pub fn is_alnum(c: u8) -> bool {
    is_alpha(c) || is_dig(c)
}
fn skip_ws(s: &[u8], mut p: usize) -> usize {
    while p < s.len() && is_ws(s[p]) {
        p += 1;
    }
    p
}
/// After a datum only `,` `;` NL or the end may follow (optional white space first).
fn sep_follows(s: &[u8], p: usize) -> (bool, usize) {
    let q = skip_ws(s, p);
    (q >= s.len() || s[q] == b',' || s[q] == b';' || s[q] == b'\n', q)
}

/// 488.2 7.7.2.2 <DECIMAL NUMERIC PROGRAM DATA> without white space inside.
pub fn nrf_end(s: &[u8], mut p: usize) -> Option<usize> {
    if p < s.len() && (s[p] == b'+' || s[p] == b'-') {
        p += 1;
    }
    let d0 = p;
    while p < s.len() && is_dig(s[p]) {
        p += 1;
    }
    let lead = p > d0;
    if p < s.len() && s[p] == b'.' {
        p += 1;
        let f0 = p;
        while p < s.len() && is_dig(s[p]) {
            p += 1;
        }
        if p == f0 && !lead {
            return None;
        }
    } else if !lead {
        return None;
    }
    if p < s.len() && (s[p] == b'E' || s[p] == b'e') {
        p += 1;
        if p < s.len() && (s[p] == b'+' || s[p] == b'-') {
            p += 1;
        }
        let e0 = p;
        while p < s.len() && is_dig(s[p]) {
            p += 1;
        }
        if p == e0 {
            return None;
        }
    }
    Some(p)
}

fn radix_digit(c: u8, radix: u32) -> Option<u32> {
    let v = if is_dig(c) {
        (c - b'0') as u32
    } else if c >= b'A' && c <= b'F' {
        (c - b'A') as u32 + 10
    } else if c >= b'a' && c <= b'f' {
        (c - b'a') as u32 + 10
    } else {
        return None;
    };
    if v < radix {
        Some(v)
    } else {
        None
    }
}

pub fn ref_lex(s: &[u8], in_header: bool, in_common: bool) -> Lex {
    let mut r = Lex { none: false, err: 0, kind: 0, a: 0, b: 0, c: 0, d: 0, val: 0, used: 0, hdr: in_header, com: in_common };
    if s.is_empty() {
        r.none = true;
        return r;
    }
    let x = s[0];
    // ---- common command prefix: `*` then up to 12 characters in all
    if x == b'*' {
        r.com = true;
        let mut p = 1;
        while p < s.len() && (is_alnum(s[p]) || s[p] == b'_') {
            p += 1;
            if p > 12 {
                r.err = -112;
                return r;
            }
        }
        r.kind = 5;
        r.a = 0;
        r.b = p;
        r.used = p;
        return r;
    }
    if x == b':' {
        if s.len() > 1 && !is_alpha(s[1]) {
            r.err = -103;
            return r;
        }
        if !in_header || in_common {
            r.err = -103;
            return r;
        }
        r.kind = 0;
        r.used = 1;
        return r;
    }
    if x == b'?' {
        if s.len() > 1 && !is_ws(s[1]) && s[1] != b';' {
            r.err = -102;
            return r;
        }
        if !in_header {
            r.err = -102;
            return r;
        }
        r.hdr = false;
        r.kind = 1;
        r.used = 1;
        return r;
    }
    if x == b';' {
        r.kind = 2;
        r.used = skip_ws(s, 1);
        r.hdr = true;
        r.com = false;
        return r;
    }
    if x == b'\n' {
        if s.len() == 1 {
            r.none = true;
            r.used = 1;
        } else {
            r.err = -102;
        }
        return r;
    }
    if x == b',' {
        if in_header {
            r.err = -111;
            return r;
        }
        let q = skip_ws(s, 1);
        if q < s.len() && (s[q] == b',' || s[q] == b';' || s[q] == b'\n') {
            r.err = -102;
            return r;
        }
        r.kind = 4;
        r.used = q;
        return r;
    }
    if is_ws(x) {
        r.kind = 3;
        r.used = skip_ws(s, 0);
        r.hdr = false;
        return r;
    }
    if is_alpha(x) {
        let mut p = 0;
        while p < s.len() && (is_alnum(s[p]) || s[p] == b'_') {
            p += 1;
            if p > 12 {
                r.err = if in_header { -112 } else { -144 };
                return r;
            }
        }
        r.a = 0;
        r.b = p;
        if in_header {
            r.kind = 5;
            r.used = p;
            return r;
        }
        let (ok, q) = sep_follows(s, p);
        if !ok {
            r.err = -141;
            return r;
        }
        r.kind = 6;
        r.used = q;
        return r;
    }
    if is_dig(x) || x == b'-' || x == b'+' || x == b'.' {
        if in_header {
            r.err = -110;
            return r;
        }
        let e = match nrf_end(s, 0) {
            Some(e) => e,
            None => {
                r.err = -120;
                return r;
            }
        };
        r.a = 0;
        r.b = e;
        let q = skip_ws(s, e);
        if q < s.len() && (is_alpha(s[q]) || s[q] == b'/') {
            let mut p = q;
            while p < s.len() && (is_alnum(s[p]) || s[p] == b'-' || s[p] == b'/' || s[p] == b'.') {
                p += 1;
                if p - q > 12 {
                    r.err = -134;
                    return r;
                }
            }
            r.c = q;
            r.d = p;
            let (ok, q2) = sep_follows(s, p);
            if !ok {
                r.err = -131;
                return r;
            }
            r.kind = 8;
            r.used = q2;
            return r;
        }
        if q < s.len() && s[q] != b',' && s[q] != b';' && s[q] != b'\n' {
            r.err = -131;
            return r;
        }
        r.kind = 7;
        r.used = q;
        return r;
    }
    if x == b'#' {
        if in_header {
            r.err = -110;
            return r;
        }
        if s.len() < 2 {
            r.err = -160;
            return r;
        }
        let f = s[1];
        if is_dig(f) {
            let nd = (f - b'0') as usize;
            if nd == 0 {
                // indefinite form: everything up to a final NL
                if s.len() < 3 {
                    r.err = -161;
                    return r;
                }
                if s[s.len() - 1] != b'\n' {
                    r.err = -161;
                    return r;
                }
                r.kind = 11;
                r.a = 2;
                r.b = s.len() - 1;
                r.used = s.len();
                return r;
            }
            if s.len() < 2 + nd {
                r.err = -161;
                return r;
            }
            let mut len: usize = 0;
            let mut i = 0;
            while i < nd {
                let c = s[2 + i];
                if !is_dig(c) {
                    r.err = -161;
                    return r;
                }
                len = len * 10 + (c - b'0') as usize;
                i += 1;
            }
            let a = 2 + nd;
            if s.len() - a < len {
                r.err = -161;
                return r;
            }
            let (ok, q) = sep_follows(s, a + len);
            if !ok {
                r.err = -138;
                return r;
            }
            r.kind = 11;
            r.a = a;
            r.b = a + len;
            r.used = q;
            return r;
        }
        let radix = if f == b'H' || f == b'h' {
            16
        } else if f == b'Q' || f == b'q' {
            8
        } else if f == b'B' || f == b'b' {
            2
        } else {
            r.err = -120;
            return r;
        };
        let mut p = 2;
        let mut v: u64 = 0;
        let mut overflow = false;
        while p < s.len() {
            match radix_digit(s[p], radix) {
                Some(dv) => {
                    if v > (u64::MAX - dv as u64) / radix as u64 {
                        overflow = true;
                    } else {
                        v = v * radix as u64 + dv as u64;
                    }
                    p += 1;
                }
                None => break,
            }
        }
        if p == 2 {
            r.err = -120;
            return r;
        }
        if overflow {
            r.err = -222;
            return r;
        }
        let (ok, q) = sep_follows(s, p);
        if !ok {
            r.err = -138;
            return r;
        }
        r.kind = 9;
        r.val = v;
        r.used = q;
        return r;
    }
    if x == b'\'' || x == b'"' {
        if in_header {
            r.err = -110;
            return r;
        }
        let mut p = 1;
        loop {
            if p >= s.len() {
                r.err = -151;
                return r;
            }
            if s[p] == x {
                if p + 1 < s.len() && s[p + 1] == x {
                    p += 2;
                    continue;
                }
                break;
            }
            if s[p] >= 0x80 {
                r.err = -101;
                return r;
            }
            p += 1;
        }
        let (ok, q) = sep_follows(s, p + 1);
        if !ok {
            r.err = -138;
            return r;
        }
        r.kind = 10;
        r.a = 1;
        r.b = p;
        r.used = q;
        return r;
    }
    if x == b'(' {
        let mut p = 1;
        loop {
            if p >= s.len() {
                r.err = -171;
                return r;
            }
            let c = s[p];
            if c == b')' {
                break;
            }
            if c == b'"' || c == b'\'' || c == b';' || c == b'(' || c >= 0x80 {
                r.err = -171;
                return r;
            }
            p += 1;
        }
        let (ok, q) = sep_follows(s, p + 1);
        if !ok {
            r.err = -138;
            return r;
        }
        r.kind = 12;
        r.a = 1;
        r.b = p;
        r.used = q;
        return r;
    }
    r.err = if x < 0x80 { -102 } else { -101 };
    r
}
