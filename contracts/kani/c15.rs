//! C15 — status event registers latch filtered condition transitions until read.
//! Loop-free (register algebra over five symbolic u16) => all values; the history statement
//! follows by induction over these per-operation contracts (ghost predicate L_b = "bit b had a
//! filtered transition since the last read/clear"; invariant event_b == L_b).
use super::kdev::*;
use super::spec::*;
use crate::scpi1999::status::*;
use crate::scpi1999::prelude::*;
use crate::scpi1999::EventRegister;
use scpi::tree::prelude::*;

#[kani::proof_for_contract(crate::scpi1999::EventRegister::set_condition)]
#[kani::unwind(18)]
pub fn set_condition_contract() {
    let mut r = any_reg();
    r.set_condition(kani::any());
}

#[kani::proof]
#[kani::unwind(18)]
pub fn set_condition_post() {
    let r0 = any_reg();
    let mut r = r0;
    let c: u16 = kani::any();
    kani::cover!(spec_latch(r0.condition, c, r0.ptr_filter, r0.ntr_filter) == 0x8001);
    r.set_condition(c);
    assert!(r.event == r0.event | spec_latch(r0.condition, c, r0.ptr_filter, r0.ntr_filter), "C15/EventRegister::set_condition/event-latches-exactly-the-filtered-transitions");
    assert!(r.condition == c, "C15/EventRegister::set_condition/condition-stored");
    assert!(r.enable == r0.enable && r.ptr_filter == r0.ptr_filter && r.ntr_filter == r0.ntr_filter, "C15/EventRegister::set_condition/frame-enable-and-filters-unchanged");
}

#[kani::proof]
#[kani::unwind(18)]
pub fn set_clear_condition_bits() {
    let r0 = any_reg();
    let m: u16 = kani::any();
    let mut r = r0;
    r.set_condition_bits(m);
    assert!(r.condition == r0.condition | m, "C15/EventRegister::set_condition_bits/condition");
    assert!(r.event == r0.event | spec_latch(r0.condition, r0.condition | m, r0.ptr_filter, r0.ntr_filter), "C15/EventRegister::set_condition_bits/latch");
    assert!(r.enable == r0.enable && r.ptr_filter == r0.ptr_filter && r.ntr_filter == r0.ntr_filter, "C15/EventRegister::set_condition_bits/frame");
    let mut r = r0;
    r.clear_condition_bits(m);
    assert!(r.condition == r0.condition & !m, "C15/EventRegister::clear_condition_bits/condition");
    assert!(r.event == r0.event | spec_latch(r0.condition, r0.condition & !m, r0.ptr_filter, r0.ntr_filter), "C15/EventRegister::clear_condition_bits/latch");
    assert!(r.enable == r0.enable && r.ptr_filter == r0.ptr_filter && r.ntr_filter == r0.ntr_filter, "C15/EventRegister::clear_condition_bits/frame");
    assert!(r0.get_condition_bit(m) == (r0.condition & m != 0), "C15/EventRegister::get_condition_bit/reads-condition");
}

#[kani::proof]
#[kani::unwind(18)]
pub fn preset_clear_summary() {
    let r0 = any_reg();
    let mut r = r0;
    r.preset();
    assert!(r.enable == 0 && r.ptr_filter == 0xFFFF && r.ntr_filter == 0, "C15/EventRegister::preset/enable-0-ptr-all-ones-ntr-0");
    assert!(r.event == r0.event, "C15/EventRegister::preset/event-register-not-cleared");
    let mut r = r0;
    r.clear_event();
    assert!(r.event == 0, "C15/EventRegister::clear_event/event-0");
    assert!(r.condition == r0.condition && r.enable == r0.enable && r.ptr_filter == r0.ptr_filter && r.ntr_filter == r0.ntr_filter, "C15/EventRegister::clear_event/frame");
    assert!(r0.get_summary() == spec_summary(r0.condition, r0.enable), "C15/EventRegister::get_summary/enabled-condition-bits-0-to-14");
    let d = EventRegister::default();
    assert!(d.condition == 0 && d.event == 0 && d.enable == 0 && d.ntr_filter == 0 && d.ptr_filter == 0xFFFF, "C15/EventRegister::default/power-on-values");
    assert!(EventRegister::new() == d, "C15/EventRegister::new/default");
}

/// History step: two successive updates latch the union, a read in between clears (ghost L_b).
#[kani::proof]
#[kani::unwind(18)]
pub fn history_two_steps() {
    let r0 = any_reg();
    let mut r = r0;
    let c1: u16 = kani::any();
    let c2: u16 = kani::any();
    r.set_condition(c1);
    r.set_condition(c2);
    let l = spec_latch(r0.condition, c1, r0.ptr_filter, r0.ntr_filter) | spec_latch(c1, c2, r0.ptr_filter, r0.ntr_filter);
    assert!(r.event == r0.event | l, "C15/EventRegister::set_condition/history-union-of-transitions");
}

macro_rules! qry {
    ($cmd:expr, $dev:expr, $out:expr) => {{
        let mut ctx = Context::default();
        let mut toks = Tokenizer::new_params(b"").peekable();
        let unit = $out.response_unit().unwrap();
        Command::<KDev>::query(&$cmd, &mut $dev, &mut ctx, Parameters::with(&mut toks), unit)
    }};
}
macro_rules! evt {
    ($cmd:expr, $dev:expr, $text:expr) => {{
        let mut ctx = Context::default();
        let mut toks = Tokenizer::new_params($text).peekable();
        Command::<KDev>::event(&$cmd, &mut $dev, &mut ctx, Parameters::with(&mut toks))
    }};
}
pub(crate) use {evt, qry};

fn expect_dec(out: &[u8], v: u16) -> bool {
    let mut b = [0u8; 40];
    let n = spec_dec32(v as i32, &mut b);
    bytes_eq(out, &b[..n])
}

macro_rules! register_set_harness {
    ($name:ident, $marker:ty, $field:ident, $other:ident) => {
        #[kani::proof]
        #[kani::unwind(18)]
        pub fn $name() {
            let d0 = any_dev_with(KQueue { items: [scpi::error::Error::default(); QCAP], len: 0 });
            // EVENt?: returns and clears
            let mut d = d0;
            let mut out = alloc::vec::Vec::<u8>::new();
            let r = qry!(EventCommand::<$marker>::new(), d, out);
            assert!(r.is_ok(), "C15/EventCommand::query/ok");
            assert!(expect_dec(&out, d0.$field.event & 0x7FFF), "C15/EventCommand::query/reports-event-with-bit15-clear");
            assert!(d.$field.event == 0, "C15/EventCommand::query/clears-event");
            assert!(d.$field.condition == d0.$field.condition && d.$field.enable == d0.$field.enable && d.$field.ptr_filter == d0.$field.ptr_filter && d.$field.ntr_filter == d0.$field.ntr_filter, "C15/EventCommand::query/frame-same-set");
            assert!(d.$other == d0.$other && d.esr == d0.esr && d.ese == d0.ese && d.sre == d0.sre, "C15/EventCommand::query/frame-other-registers");
            // CONDition?: changes nothing
            let mut d = d0;
            let mut out = alloc::vec::Vec::<u8>::new();
            let r = qry!(ConditionCommand::<$marker>::new(), d, out);
            assert!(r.is_ok() && expect_dec(&out, d0.$field.condition & 0x7FFF), "C15/ConditionCommand::query/reports-condition-with-bit15-clear");
            assert!(d == d0, "C15/ConditionCommand::query/changes-nothing");
            // ENABle? / PTR? / NTR?
            let mut d = d0;
            let mut out = alloc::vec::Vec::<u8>::new();
            let r = qry!(EnableCommand::<$marker>::new(), d, out);
            assert!(r.is_ok() && expect_dec(&out, d0.$field.enable & 0x7FFF) && d == d0, "C15/EnableCommand::query/reads-back-with-bit15-clear");
            let mut out = alloc::vec::Vec::<u8>::new();
            let r = qry!(PTransitionCommand::<$marker>::new(), d, out);
            assert!(r.is_ok() && expect_dec(&out, d0.$field.ptr_filter & 0x7FFF) && d == d0, "C15/PTransitionCommand::query/reads-back-with-bit15-clear");
            let mut out = alloc::vec::Vec::<u8>::new();
            let r = qry!(NTransitionCommand::<$marker>::new(), d, out);
            assert!(r.is_ok() && expect_dec(&out, d0.$field.ntr_filter & 0x7FFF) && d == d0, "C15/NTransitionCommand::query/reads-back-with-bit15-clear");
        }
    };
}
register_set_harness!(operation_queries, Operation, oper, ques);
register_set_harness!(questionable_queries, Questionable, ques, oper);

/// Writes of ENABle / PTRansition / NTRansition: with the lexer replaced by its contract, the
/// parameter is any non-decimal literal value (all 2^64): stored raw when it fits 16 bits,
/// -222 and nothing changed otherwise; a missing parameter is -109 and nothing changed.
/// The six (command, parameter present?) cases run one after the other so that every token
/// kind is a constant when the handler runs (no symbolic control data).
macro_rules! register_write_harness {
    ($name:ident, $marker:ty, $field:ident, $other:ident) => {
        #[kani::proof]
        #[kani::unwind(10)]
        #[kani::stub(<scpi::parser::tokenizer::Tokenizer as core::iter::Iterator>::next, super::kscript::stub_next)]
        pub fn $name() {
            use super::kscript::*;
            let d0 = any_dev_with(KQueue { items: [scpi::error::Error::default(); QCAP], len: 0 });
            let v: u64 = kani::any();
            kani::cover!(v == 0xFFFF);
            kani::cover!(v == 0x10000);
            macro_rules! case {
                ($cmd:expr, $reg:ident, $present:expr) => {{
                    let mut d = d0;
                    if $present {
                        set_script(&[Some(Ok(Token::NonDecimalNumericProgramData(v)))]);
                    } else {
                        set_script(&[]);
                    }
                    let mut ctx = Context::default();
                    let mut toks = Tokenizer::new_params(b"").peekable();
                    let r = Command::<KDev>::event(&$cmd, &mut d, &mut ctx, Parameters::with(&mut toks));
                    let mut exp = d0;
                    if $present && v <= 0xFFFF {
                        exp.$field.$reg = v as u16;
                        assert!(r.is_ok(), "C15/register-write::event/accepts-0-to-65535");
                        assert!(pos() == 1, "C15/register-write::event/consumes-exactly-its-parameter");
                    } else if $present {
                        assert!(r == Err(scpi::error::ErrorCode::DataOutOfRange.into()), "C15/register-write::event/out-of-range-is-222");
                    } else {
                        assert!(r == Err(scpi::error::ErrorCode::MissingParameter.into()), "C15/register-write::event/missing-parameter-is-109");
                    }
                    assert!(d == exp, "C15/register-write::event/stores-raw-value-in-its-own-register-only");
                }};
            }
            case!(EnableCommand::<$marker>::new(), enable, true);
            case!(EnableCommand::<$marker>::new(), enable, false);
            case!(PTransitionCommand::<$marker>::new(), ptr_filter, true);
            case!(PTransitionCommand::<$marker>::new(), ptr_filter, false);
            case!(NTransitionCommand::<$marker>::new(), ntr_filter, true);
            case!(NTransitionCommand::<$marker>::new(), ntr_filter, false);
        }
    };
}
register_write_harness!(operation_writes, Operation, oper, ques);
register_write_harness!(questionable_writes, Questionable, ques, oper);

#[kani::proof]
#[kani::unwind(4)]
pub fn stat_preset() {
    let d0 = any_dev_with(KQueue { items: [scpi::error::Error::default(); QCAP], len: 0 });
    let mut d = d0;
    let r = evt!(StatPresetCommand, d, b"");
    assert!(r.is_ok(), "C15/StatPresetCommand::event/ok");
    assert!(d.oper.enable == 0 && d.oper.ptr_filter == 0xFFFF && d.oper.ntr_filter == 0, "C15/StatPresetCommand::event/operation-set-preset");
    assert!(d.ques.enable == 0 && d.ques.ptr_filter == 0xFFFF && d.ques.ntr_filter == 0, "C15/StatPresetCommand::event/questionable-set-preset");
    assert!(d.oper.event == d0.oper.event && d.ques.event == d0.ques.event, "C15/StatPresetCommand::event/event-registers-kept");
    assert!(d.esr == d0.esr && d.ese == d0.ese && d.sre == d0.sre && d.q == d0.q, "C15/StatPresetCommand::event/frame");
}
