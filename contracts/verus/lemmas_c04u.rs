// TRUSTED: specifications of three `core` predicates on u8 (their documented meaning).
pub assume_specification[ u8::to_ascii_lowercase ](c: &u8) -> (r: u8)
    ensures r == (if 65 <= *c <= 90 { (*c + 32) as u8 } else { *c });
pub assume_specification[ u8::is_ascii_digit ](c: &u8) -> (r: bool)
    ensures r == (48 <= *c <= 57);
pub assume_specification[ u8::is_ascii_alphabetic ](c: &u8) -> (r: bool)
    ensures r == ((65 <= *c <= 90) || (97 <= *c <= 122));

/// Value of an ASCII digit in the given radix (digits then letters, either case).
pub open spec fn spec_digit(d: u8, radix: u8) -> Option<u32> {
    if 48 <= d <= 57 && d - 48 < radix { Some((d - 48) as u32) }
    else if radix > 10 && 97 <= d <= 122 && d - 97 < radix - 10 { Some((d - 97 + 10) as u32) }
    else if radix > 10 && 65 <= d <= 90 && d - 65 < radix - 10 { Some((d - 65 + 10) as u32) }
    else { None }
}
