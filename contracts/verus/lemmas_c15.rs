// ---------------------------------------------------------------------------------------
// Specification (from the property statement): per-bit filtered transition latch.
// ---------------------------------------------------------------------------------------
pub open spec fn bit(x: u16, b: u16) -> bool {
    (x >> b) & 1 == 1
}

/// Word-level latch used in the contracts above.
pub open spec fn spec_latch(old_cond: u16, new_cond: u16, ptr: u16, ntr: u16) -> u16 {
    (old_cond ^ new_cond) & ((new_cond & ptr) | (!new_cond & ntr))
}

/// The word-level formula is, bit for bit, the statement's rule: bit b is latched exactly if the
/// condition bit rose while its positive filter bit was set, or fell while its negative one was.
pub proof fn lemma_latch_is_per_bit(oc: u16, nc: u16, ptr: u16, ntr: u16, b: u16)
    requires b < 16,
    ensures
        bit(spec_latch(oc, nc, ptr, ntr), b) == ((!bit(oc, b) && bit(nc, b) && bit(ptr, b)) || (bit(oc, b) && !bit(nc, b) && bit(ntr, b))),
{
    assert(((((oc ^ nc) & ((nc & ptr) | (!nc & ntr))) >> b) & 1 == 1)
        == ((!((oc >> b) & 1 == 1) && ((nc >> b) & 1 == 1) && ((ptr >> b) & 1 == 1))
            || (((oc >> b) & 1 == 1) && !((nc >> b) & 1 == 1) && ((ntr >> b) & 1 == 1)))) by (bit_vector)
        requires b < 16;
}

/// History: two updates latch the union of their transitions (the event register only grows
/// until it is read or cleared) — the induction step of the history statement.
pub proof fn lemma_history_step(e: u16, c0: u16, c1: u16, c2: u16, ptr: u16, ntr: u16)
    ensures
        (e | spec_latch(c0, c1, ptr, ntr)) | spec_latch(c1, c2, ptr, ntr) == e | (spec_latch(c0, c1, ptr, ntr) | spec_latch(c1, c2, ptr, ntr)),
{
    assert((e | ((c0 ^ c1) & ((c1 & ptr) | (!c1 & ntr)))) | ((c1 ^ c2) & ((c2 & ptr) | (!c2 & ntr)))
        == e | (((c0 ^ c1) & ((c1 & ptr) | (!c1 & ntr))) | ((c1 ^ c2) & ((c2 & ptr) | (!c2 & ntr))))) by (bit_vector);
}

/// Reported values have bit 15 clear.
pub proof fn lemma_report_mask(x: u16)
    ensures (x & 0x7FFF) >> 15 == 0,
{
    assert((x & 0x7FFF) >> 15 == 0) by (bit_vector);
}
