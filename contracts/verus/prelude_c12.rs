// ---------------------------------------------------------------------------------------
// TRUSTED: contract of the `arrayvec` dependency (arrayvec 0.7 documentation), as a shim whose
// module path makes the verbatim text `arrayvec::ArrayVec<Error, CAP>` resolve to it.
// `alloc::vec::Vec` is the real type with vstd's specifications.
// ---------------------------------------------------------------------------------------
pub mod arrayvec {
    use vstd::prelude::*;
    #[verifier::external_body]
    #[verifier::reject_recursive_types(T)]
    pub struct ArrayVec<T, const CAP: usize> { p: core::marker::PhantomData<T> }
    pub struct CapacityError<T>(pub T);
    impl<T> core::fmt::Debug for CapacityError<T> {
        #[verifier::external_body]
        fn fmt(&self, f: &mut core::fmt::Formatter<'_>) -> core::fmt::Result { Ok(()) }
    }
    impl<T, const CAP: usize> ArrayVec<T, CAP> {
        pub uninterp spec fn view(&self) -> Seq<T>;
        /// ArrayVec's own representation invariant.
        #[verifier::external_body]
        pub proof fn len_le_cap(&self)
            ensures self@.len() <= CAP,
        { unimplemented!() }
        #[verifier::external_body]
        pub fn try_push(&mut self, e: T) -> (r: Result<(), CapacityError<T>>)
            ensures
                old(self)@.len() < CAP ==> r is Ok && final(self)@ == old(self)@.push(e),
                old(self)@.len() >= CAP ==> r is Err && final(self)@ == old(self)@,
        { unimplemented!() }
        #[verifier::external_body]
        pub fn pop(&mut self) -> (r: Option<T>)
            ensures
                old(self)@.len() == 0 ==> r is None && final(self)@ == old(self)@,
                old(self)@.len() > 0 ==> r == Some(old(self)@.last()) && final(self)@ == old(self)@.drop_last(),
        { unimplemented!() }
        #[verifier::external_body]
        pub fn pop_at(&mut self, i: usize) -> (r: Option<T>)
            ensures
                i >= old(self)@.len() ==> r is None && final(self)@ == old(self)@,
                i < old(self)@.len() ==> r == Some(old(self)@[i as int]) && final(self)@ == old(self)@.remove(i as int),
        { unimplemented!() }
        #[verifier::external_body]
        pub fn len(&self) -> (r: usize)
            ensures r == self@.len(),
        { unimplemented!() }
        #[verifier::external_body]
        pub fn clear(&mut self)
            ensures final(self)@ == Seq::<T>::empty(),
        { unimplemented!() }
        // Further methods of arrayvec 0.7 (documented behaviour), so that an implementation
        // that uses them is still within the verifier's reach.
        #[verifier::external_body]
        pub fn is_empty(&self) -> (r: bool)
            ensures r == (self@.len() == 0),
        { unimplemented!() }
        #[verifier::external_body]
        pub fn is_full(&self) -> (r: bool)
            ensures r == (self@.len() == CAP),
        { unimplemented!() }
        #[verifier::external_body]
        pub fn capacity(&self) -> (r: usize)
            ensures r == CAP,
        { unimplemented!() }
        #[verifier::external_body]
        pub fn remaining_capacity(&self) -> (r: usize)
            ensures r == CAP - self@.len(),
        { unimplemented!() }
        /// Panics when full: the precondition makes that panic an obligation.
        #[verifier::external_body]
        pub fn push(&mut self, e: T)
            requires old(self)@.len() < CAP,
            ensures final(self)@ == old(self)@.push(e),
        { unimplemented!() }
        /// Panics when out of bounds.
        #[verifier::external_body]
        pub fn remove(&mut self, i: usize) -> (r: T)
            requires i < old(self)@.len(),
            ensures r == old(self)@[i as int], final(self)@ == old(self)@.remove(i as int),
        { unimplemented!() }
        /// Panics when out of bounds.
        #[verifier::external_body]
        pub fn swap_remove(&mut self, i: usize) -> (r: T)
            requires i < old(self)@.len(),
            ensures r == old(self)@[i as int],
                final(self)@ == old(self)@.update(i as int, old(self)@.last()).drop_last(),
        { unimplemented!() }
        #[verifier::external_body]
        pub fn swap_pop(&mut self, i: usize) -> (r: Option<T>)
            ensures
                i >= old(self)@.len() ==> r is None && final(self)@ == old(self)@,
                i < old(self)@.len() ==> r == Some(old(self)@[i as int])
                    && final(self)@ == old(self)@.update(i as int, old(self)@.last()).drop_last(),
        { unimplemented!() }
        #[verifier::external_body]
        pub fn truncate(&mut self, n: usize)
            ensures
                n >= old(self)@.len() ==> final(self)@ == old(self)@,
                n < old(self)@.len() ==> final(self)@ == old(self)@.subrange(0, n as int),
        { unimplemented!() }
        /// Panics when full or out of bounds.
        #[verifier::external_body]
        pub fn insert(&mut self, i: usize, e: T)
            requires old(self)@.len() < CAP, i <= old(self)@.len(),
            ensures final(self)@ == old(self)@.insert(i as int, e),
        { unimplemented!() }
        #[verifier::external_body]
        pub fn try_insert(&mut self, i: usize, e: T) -> (r: Result<(), CapacityError<T>>)
            requires i <= old(self)@.len(),
            ensures
                old(self)@.len() < CAP ==> r is Ok && final(self)@ == old(self)@.insert(i as int, e),
                old(self)@.len() >= CAP ==> r is Err && final(self)@ == old(self)@,
        { unimplemented!() }
        #[verifier::external_body]
        pub fn last(&self) -> (r: Option<&T>)
            ensures
                self@.len() == 0 ==> r is None,
                self@.len() > 0 ==> r == Some(&self@.last()),
        { unimplemented!() }
        #[verifier::external_body]
        pub fn first(&self) -> (r: Option<&T>)
            ensures
                self@.len() == 0 ==> r is None,
                self@.len() > 0 ==> r == Some(&self@[0]),
        { unimplemented!() }
        #[verifier::external_body]
        pub fn get(&self, i: usize) -> (r: Option<&T>)
            ensures
                i >= self@.len() ==> r is None,
                i < self@.len() ==> r == Some(&self@[i as int]),
        { unimplemented!() }
    }
}

// ---------------------------------------------------------------------------------------
// Specification (from the property statement): the abstract bounded FIFO.
// `cap` is None for the growable queue.
// ---------------------------------------------------------------------------------------
pub open spec fn overflow_marker() -> Error {
    Error(ErrorCode::QueueOverflow, None)
}

pub open spec fn spec_push(q: Seq<Error>, cap: Option<int>, e: Error) -> Seq<Error> {
    match cap {
        None => q.push(e),
        Some(c) => if q.len() < c { q.push(e) } else { q.drop_last().push(overflow_marker()) },
    }
}

pub open spec fn spec_pop(q: Seq<Error>) -> (Option<Error>, Seq<Error>) {
    if q.len() == 0 { (None, q) } else { (Some(q[0]), q.skip(1)) }
}
