// ---------------------------------------------------------------------------------------
// TRUSTED: contract of the `arrayvec` dependency (arrayvec 0.7 documentation), as a shim whose
// module path makes the verbatim text `arrayvec::ArrayVec<Error, CAP>` resolve to it.
// `alloc::vec::Vec` is the real type with vstd's specifications.
// ---------------------------------------------------------------------------------------
pub mod arrayvec {
    use vstd::prelude::*;
    #[verifier::external_body]
    #[verifier::reject_recursive_types(T)]
    pub struct ArrayVec<T, const CAP: usize> { p: core::marker::PhantomData<T> }
    pub struct CapacityError<T>(pub T);
    impl<T> core::fmt::Debug for CapacityError<T> {
        #[verifier::external_body]
        fn fmt(&self, f: &mut core::fmt::Formatter<'_>) -> core::fmt::Result { Ok(()) }
    }
    impl<T, const CAP: usize> ArrayVec<T, CAP> {
        pub uninterp spec fn view(&self) -> Seq<T>;
        /// ArrayVec's own representation invariant.
        #[verifier::external_body]
        pub proof fn len_le_cap(&self)
            ensures self@.len() <= CAP,
        { unimplemented!() }
        #[verifier::external_body]
        pub fn try_push(&mut self, e: T) -> (r: Result<(), CapacityError<T>>)
            ensures
                old(self)@.len() < CAP ==> r is Ok && final(self)@ == old(self)@.push(e),
                old(self)@.len() >= CAP ==> r is Err && final(self)@ == old(self)@,
        { unimplemented!() }
        #[verifier::external_body]
        pub fn pop(&mut self) -> (r: Option<T>)
            ensures
                old(self)@.len() == 0 ==> r is None && final(self)@ == old(self)@,
                old(self)@.len() > 0 ==> r == Some(old(self)@.last()) && final(self)@ == old(self)@.drop_last(),
        { unimplemented!() }
        #[verifier::external_body]
        pub fn pop_at(&mut self, i: usize) -> (r: Option<T>)
            ensures
                i >= old(self)@.len() ==> r is None && final(self)@ == old(self)@,
                i < old(self)@.len() ==> r == Some(old(self)@[i as int]) && final(self)@ == old(self)@.remove(i as int),
        { unimplemented!() }
        #[verifier::external_body]
        pub fn len(&self) -> (r: usize)
            ensures r == self@.len(),
        { unimplemented!() }
        #[verifier::external_body]
        pub fn clear(&mut self)
            ensures final(self)@ == Seq::<T>::empty(),
        { unimplemented!() }
    }
}

// ---------------------------------------------------------------------------------------
// Specification (from the property statement): the abstract bounded FIFO.
// `cap` is None for the growable queue.
// ---------------------------------------------------------------------------------------
pub open spec fn overflow_marker() -> Error {
    Error(ErrorCode::QueueOverflow, None)
}

pub open spec fn spec_push(q: Seq<Error>, cap: Option<int>, e: Error) -> Seq<Error> {
    match cap {
        None => q.push(e),
        Some(c) => if q.len() < c { q.push(e) } else { q.drop_last().push(overflow_marker()) },
    }
}

pub open spec fn spec_pop(q: Seq<Error>) -> (Option<Error>, Seq<Error>) {
    if q.len() == 0 { (None, q) } else { (Some(q[0]), q.skip(1)) }
}
