// vstd gives `From::from` the postcondition `obeys_from_spec() ==> r == from_spec(v)`; state what
// this impl's spec is (it is then PROVED for the extracted body above).
impl vstd::std_specs::convert::FromSpecImpl<ErrorCode> for Error {
    open spec fn obeys_from_spec() -> bool { true }
    open spec fn from_spec(v: ErrorCode) -> Error { Error(v, None) }
}

// ---------------------------------------------------------------------------------------
// History statement: for any sequence of operations the queue equals the abstract bounded
// FIFO.  Ops are interpreted over the abstract model; each exec operation's postcondition is
// exactly one step of `step`, so the induction below closes the "for all histories" quantifier.
// ---------------------------------------------------------------------------------------
pub enum Op { Push(Error), Pop, Clear }

pub open spec fn step(q: Seq<Error>, cap: Option<int>, op: Op) -> Seq<Error> {
    match op {
        Op::Push(e) => spec_push(q, cap, e),
        Op::Pop => spec_pop(q).1,
        Op::Clear => Seq::<Error>::empty(),
    }
}

pub open spec fn run_ops(q: Seq<Error>, cap: Option<int>, ops: Seq<Op>) -> Seq<Error>
    decreases ops.len(),
{
    if ops.len() == 0 { q } else { run_ops(step(q, cap, ops[0]), cap, ops.skip(1)) }
}

pub open spec fn bounded(q: Seq<Error>, cap: Option<int>) -> bool {
    match cap { None => true, Some(c) => q.len() <= c }
}

/// A bounded queue never exceeds its capacity, whatever the history.
pub proof fn lemma_history_bounded(q: Seq<Error>, cap: Option<int>, ops: Seq<Op>)
    requires bounded(q, cap), cap matches Some(c) ==> c >= 1,
    ensures bounded(run_ops(q, cap, ops), cap),
    decreases ops.len(),
{
    if ops.len() > 0 {
        lemma_history_bounded(step(q, cap, ops[0]), cap, ops.skip(1));
    }
}

/// Overflow keeps the N-1 oldest entries unchanged and in order and marks the newest slot.
pub proof fn lemma_overflow_shape(q: Seq<Error>, c: int, e: Error)
    requires c >= 1, q.len() == c,
    ensures
        spec_push(q, Some(c), e).len() == c,
        forall|i: int| 0 <= i < c - 1 ==> #[trigger] spec_push(q, Some(c), e)[i] == q[i],
        spec_push(q, Some(c), e)[c - 1] == overflow_marker(),
{
}

/// FIFO order: pushing onto a non-full queue and popping everything returns insertion order.
pub proof fn lemma_fifo(q: Seq<Error>, cap: Option<int>, e: Error)
    requires cap matches Some(c) ==> q.len() < c,
    ensures
        spec_push(q, cap, e) == q.push(e),
        q.len() > 0 ==> spec_pop(spec_push(q, cap, e)).0 == Some(q[0]),
        q.len() > 0 ==> spec_pop(spec_push(q, cap, e)).1 == spec_push(q.skip(1), cap, e),
        q.len() == 0 ==> spec_pop(spec_push(q, cap, e)).0 == Some(e),
{
    if q.len() > 0 {
        assert(q.push(e).skip(1) =~= q.skip(1).push(e));
    }
}

/// Removing an entry makes room again.
pub proof fn lemma_pop_makes_room(q: Seq<Error>, c: int, e: Error)
    requires c >= 1, q.len() == c,
    ensures spec_push(spec_pop(q).1, Some(c), e) == q.skip(1).push(e),
{
}
