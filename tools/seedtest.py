#!/usr/bin/env python3
"""Run the quick check of the property each seeded change breaks against the change (applied to
the SCRATCH copy only via --patch) and record whether it is caught.
   usage: seedtest.py [seed-dir-name ...]   (default: all)"""
import json, os, re, subprocess, sys, time
V = os.path.dirname(os.path.dirname(os.path.abspath(__file__)))
seeds = sys.argv[1:] or sorted(os.listdir(os.path.join(V, "seeded")))
for sd in seeds:
    d = os.path.join(V, "seeded", sd)
    if not os.path.isdir(d):
        continue
    meta = json.load(open(os.path.join(d, "meta.json")))
    pid = meta.get("breaks_property") or sd.split("-")[0]
    also = meta.get("also_check", [])
    res = {}
    for p in [pid] + also:
        t0 = time.time()
        r = subprocess.run([os.path.join(V, "check"), p, "--tier", "quick", "--patch", os.path.join(d, "patch.diff")],
                           stdout=subprocess.PIPE, stderr=subprocess.STDOUT, text=True)
        viol = re.findall(r"VIOLATION property=\S+ replay=\S+ obligation=(\S+)( no-failing-input-found)?", r.stdout)
        res[p] = {"exit": r.returncode, "violations": [v[0] + v[1] for v in viol][:12], "wall_s": round(time.time() - t0),
                  "tail": r.stdout[-600:] if r.returncode not in (1,) else ""}
        print(sd, p, "exit", r.returncode, len(viol), "violations", flush=True)
    json.dump(res, open(os.path.join(d, "result.json"), "w"), indent=1)
