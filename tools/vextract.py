#!/usr/bin/env python3
"""Mechanical extraction of real items from /repo into one Verus file (DESIGN 3.1).

The function bodies are never retyped: items are located by their header line, copied
verbatim, and only
  * doc comments / plain comments and attribute lines (#[...]) are dropped (reported),
  * `-> T` becomes `-> (r: T)` where a contract names the result,
  * requires/ensures/invariant/decreases text from the .json spec is inserted between
    signature and body (or at the loop ordinal),
  * `extra_items` (spec fns) are added at the top of a trait/impl block.
A lost header or function => Lost (exit 2 in the driver)."""
import json
import os
import re


class Lost(Exception):
    pass


def block_at(lines, start):
    depth = 0
    seen = False
    for i in range(start, len(lines)):
        depth += lines[i].count("{") - lines[i].count("}")
        if "{" in lines[i]:
            seen = True
        if seen and depth <= 0:
            return i
        if not seen and lines[i].rstrip().endswith(";"):
            return i
    raise Lost("unterminated block at line %d" % (start + 1))


def find_header(lines, header, src):
    hits = [i for i, l in enumerate(lines) if l.strip() == header.strip()]
    if len(hits) != 1:
        raise Lost("header %r found %d times in %s" % (header, len(hits), src))
    return hits[0]


def clean(block, dropped):
    out = []
    for l in block:
        s = l.strip()
        if s.startswith("//"):
            dropped["comment_lines"] += 1
            continue
        if s.startswith("#[") and s.endswith("]"):
            dropped["attributes"].append(s)
            continue
        if s.startswith("#[") and not s.endswith("]"):
            raise Lost("multi-line attribute not supported: " + s)
        out.append(l)
    return out


def apply_fn_specs(block, specs, where):
    """Insert contract text into the functions named in `specs` inside `block` (list of lines)."""
    text = "\n".join(block)
    for name, sp in specs.items():
        m = list(re.finditer(r"\bfn\s+%s\s*(<[^>]*>)?\s*\(" % re.escape(name), text))
        if len(m) != 1:
            raise Lost("function %s found %d times in %s" % (name, len(m), where))
        i = m[0].end()
        # find end of signature: first '{' or ';' at paren depth 0
        depth = 1
        while depth > 0:
            c = text[i]
            depth += (c == "(") - (c == ")")
            i += 1
        j = i
        while text[j] not in "{;":
            j += 1
        sig_tail = text[i:j]
        if sp.get("ret"):
            mt = re.match(r"\s*->\s*(.+?)\s*$", sig_tail, flags=re.S)
            if not mt:
                raise Lost("function %s has no return type to name in %s" % (name, where))
            sig_tail = " -> (%s: %s)" % (sp["ret"], mt.group(1).strip())
        clauses = sp.get("clauses", "").strip()
        new_tail = sig_tail + ("\n        " + clauses + "\n    " if clauses else " ")
        body_start = j
        text = text[:i] + new_tail + text[body_start:]
        # loop annotations by ordinal inside this function's body
        if sp.get("loops") and text[i + len(new_tail)] == "{":
            bs = i + len(new_tail)
            d = 0
            k = bs
            while True:
                d += (text[k] == "{") - (text[k] == "}")
                k += 1
                if d == 0:
                    break
            body = text[bs:k]
            loops = list(re.finditer(r"\b(while\b[^{]*|loop\s*|for\b[^{]*)\{", body))
            for ordinal, ann in sorted(sp["loops"].items(), key=lambda kv: -int(kv[0])):
                o = int(ordinal)
                if o >= len(loops):
                    raise Lost("loop %d of %s not found in %s" % (o, name, where))
                pos = loops[o].end() - 1
                body = body[:pos] + "\n            " + ann.strip() + "\n        " + body[pos:]
            text = text[:bs] + body + text[k:]
    return text.split("\n")


def build(ws, spec_path, vdir):
    spec = json.load(open(spec_path))
    dropped = {"comment_lines": 0, "attributes": []}
    parts = ["use vstd::prelude::*;", "extern crate alloc;", "verus! {", ""]
    if spec.get("prelude"):
        parts.append(open(os.path.join(vdir, spec["prelude"])).read())
    report = {"items": [], "substitutions": spec.get("substitutions_note", [])}
    for it in spec["items"]:
        src = os.path.join(ws, it["src"])
        if not os.path.exists(src):
            raise Lost("file %s is gone" % it["src"])
        lines = open(src).read().split("\n")
        h = find_header(lines, it["header"], it["src"])
        e = block_at(lines, h)
        block = lines[h:e + 1]
        nlines = len(block)
        block = clean(block, dropped)
        if it.get("only_fns"):
            # keep the header, the listed functions, and the closing brace
            text = "\n".join(block)
            kept = [block[0]]
            for fn in it["only_fns"]:
                m = list(re.finditer(r"^[ \t]*(pub(\([a-z]+\))?\s+)?fn\s+%s\s*(<[^>]*>)?\s*\(" % re.escape(fn), text, flags=re.M))
                if len(m) != 1:
                    raise Lost("function %s found %d times under %r" % (fn, len(m), it["header"]))
                s0 = text.count("\n", 0, m[0].start())
                e0 = block_at(block, s0)
                kept += block[s0:e0 + 1]
            kept.append("}")
            block = kept
        if it.get("drop_variant_payload_attrs"):
            pass
        if it.get("specs"):
            block = apply_fn_specs(block, it["specs"], it["header"])
        if it.get("extra_items"):
            block = [block[0], it["extra_items"]] + block[1:]
        if it.get("derive"):
            block = ["#[derive(%s)]" % it["derive"]] + block
        for a, b in it.get("replace", []):
            block = [l.replace(a, b) for l in block]
        parts.append("// ---- extracted verbatim from %s:%d-%d" % (it["src"], h + 1, e + 1))
        parts += block
        parts.append("")
        report["items"].append({"src": it["src"], "header": it["header"], "lines": "%d-%d" % (h + 1, e + 1),
                                "contracted_functions": sorted((it.get("specs") or {}).keys())})
    if spec.get("lemmas"):
        parts.append(open(os.path.join(vdir, spec["lemmas"])).read())
    parts += ["} // verus!", ""]
    report["dropped"] = {"comment_lines": dropped["comment_lines"], "attribute_lines": len(dropped["attributes"]),
                         "attribute_kinds": sorted({re.match(r"#\[(\w+)", a).group(1) for a in dropped["attributes"] if re.match(r"#\[(\w+)", a)})}
    return "\n".join(parts), report


def failed_functions(out, src_text):
    """Map Verus error locations back to the enclosing function of the generated file."""
    lines = src_text.split("\n")
    res = []
    for m in re.finditer(r"error: ([^\n]*)\n\s*--> [^\n:]*:(\d+):\d+", out):
        msg, ln = m.group(1), int(m.group(2))
        fn = "?"
        for i in range(min(ln, len(lines)) - 1, -1, -1):
            mm = re.search(r"\bfn\s+(\w+)", lines[i])
            if mm:
                fn = mm.group(1)
                # qualify by enclosing impl/trait header
                for j in range(i, -1, -1):
                    if re.match(r"\s*(pub\s+)?(impl|trait)\b", lines[j]) and lines[j].rstrip().endswith("{"):
                        fn = re.sub(r"\s+", " ", lines[j].strip().rstrip("{").strip()) + "::" + fn
                        break
                break
        if "aborting due to" in msg:
            continue
        res.append((fn, re.sub(r"[^A-Za-z0-9]+", "-", msg).strip("-")[:60]))
    # dedupe
    seen = set()
    out2 = []
    for r in res:
        if r not in seen:
            seen.add(r)
            out2.append(r)
    return out2


def failures_from_json(j, out):
    """(function, reason) for every function Verus reports as not verified, with the text of
    the failed clause (caret-marked in the diagnostic) when there is one."""
    fns = []
    try:
        for mod in j["times-ms"]["smt"]["smt-run-module-times"]:
            for fb in mod.get("function-breakdown", []):
                if not fb.get("success", True):
                    fns.append(fb["function"])
    except (KeyError, TypeError):
        pass
    snippets = []
    lines = out.split("\n")
    for i in range(1, len(lines)):
        m = re.match(r"^\s*\|\s*( *)(\^+)(.*)$", lines[i])
        if m and re.match(r"^\s*\d+\s*\|", lines[i - 1]):
            srcm = re.match(r"^\s*\d+\s*\|(.*)$", lines[i - 1])
            body = srcm.group(1)
            pre = re.match(r"^\s*\|", lines[i]).end()
            col = len(lines[i][:lines[i].index("^")]) - pre
            snippets.append(body[col:col + len(m.group(2))].strip() + " [" + m.group(3).strip() + "]")
    msgs = re.findall(r"^error: ([^\n]*)", out, flags=re.M)
    msgs = [m for m in msgs if "aborting due to" not in m]
    reason = (msgs[0] if msgs else "not-verified")
    if snippets:
        reason += ": " + snippets[0]
    reason = re.sub(r"[^A-Za-z0-9_.()=<>!&|:+-]+", "_", reason).strip("_")[:110]
    return [(f, reason) for f in fns]
