#!/usr/bin/env python3
"""Regenerate MANIFEST.json from contracts/index.json + contracts/claims.json."""
import json, os
V = os.path.dirname(os.path.dirname(os.path.abspath(__file__)))
idx = json.load(open(os.path.join(V, "contracts/index.json")))
claims = json.load(open(os.path.join(V, "contracts/claims.json")))
props = [json.loads(l) for l in open(os.path.join(V, "properties.jsonl"))]
checks, na = [], []
for p in props:
    pid = p["id"]
    c = claims.get(pid, {})
    if pid in idx and c.get("claimed", True) and not c.get("not_applicable"):
        lvl = idx[pid].get("level", "proof")
        checks.append({
            "property_id": pid,
            "quick_cmd": "./check %s --tier quick" % pid,
            "thorough_cmd": "./check %s --tier thorough" % pid,
            "evidence_file": "/verif/evidence/%s.json" % pid,
            "replay_cmd_template": "./check %s --replay {path}" % pid,
            "engine": "contracts",
            "level_claimed": {"category": lvl, "text": c.get("text", ""), "design_ref": "DESIGN.md section 5 (%s)" % pid},
            "level_note": c.get("note", ""),
            "technique": c.get("technique", "contract-based deductive verification of the real code (Kani/CBMC contract harnesses; Verus)"),
        })
    else:
        na.append({"property_id": pid, "reason": c.get("not_applicable", "check not built yet")})
m = {
    "version": 1,
    "setup_cmd": "./tools/setup.sh",
    "hooks": {
        "guard": "kani",
        "enable": "no hook is committed to /repo: every check copies /repo to a scratch directory and appends cfg(kani)-only contract modules (and #[cfg_attr(kani, kani::requires/ensures)] attributes) there; cfg(kani) is set by `cargo kani` itself",
        "baseline_off_cmd": "cd /repo && cargo test --workspace --no-fail-fast --offline",
        "source_commits": [],
        "add_only": True,
    },
    "engines": [{"name": "contracts", "path": "/verif/check", "serves_properties": [c["property_id"] for c in checks],
                 "kind_free_text": "contract-based deductive verification: pre/postconditions on the real functions of /repo, discharged function by function by Kani 0.68 (CBMC 6.11) and Verus 0.2026.09.13 (Z3); callees replaced by contract stubs; counterexamples replayed natively with `cargo kani playback`"}],
    "checks": checks,
    "not_applicable": na,
    "notes": "See DESIGN.md. exit 0 = all obligations discharged (known findings printed); exit 1 = VIOLATION line; exit 2 = UNDECIDED (tool limit / lost anchor), never an alarm.",
}
json.dump(m, open(os.path.join(V, "MANIFEST.json"), "w"), indent=1)
print("checks:", len(checks), "not_applicable:", len(na))
