#!/usr/bin/env python3
"""Markdown table of seeded changes vs. checks (from seeded/*/meta.json + result.json)."""
import json, os
V = os.path.dirname(os.path.dirname(os.path.abspath(__file__)))
rows = []
for sd in sorted(os.listdir(os.path.join(V, "seeded"))):
    d = os.path.join(V, "seeded", sd)
    if not os.path.isdir(d):
        continue
    meta = json.load(open(os.path.join(d, "meta.json")))
    rp = os.path.join(d, "result.json")
    res = json.load(open(rp)) if os.path.exists(rp) else {}
    summ = meta.get("summary", "").replace("\n", " ").replace("|", "/")[:110]
    cells = []
    for p, r in res.items():
        if r["exit"] == 1:
            ob = sorted({v.split(" ")[0].split("/", 1)[-1][:70] for v in r["violations"]})
            cells.append("**caught** by %s: %s" % (p, "; ".join(ob[:2])))
        elif r["exit"] == 2:
            cells.append("%s: UNDECIDED (%s)" % (p, r.get("tail", "")[-120:].replace("\n", " ").replace("|", "/")))
        else:
            cells.append("%s: not caught" % p)
    rows.append("| %s | %s | %s |" % (sd, summ, "<br>".join(cells) or "not run"))
print("| seed | change | result of the quick check(s) |\n|---|---|---|")
print("\n".join(rows))
