#!/usr/bin/env python3
"""Entry point of the contract checker.  See DESIGN.md section 3.

  check <PID> [--tier quick|thorough] [--replay FILE] [--keep] [--only GROUP] [--jobs N]

exit 0  every obligation of the property was discharged (known findings are printed)
exit 1  an obligation failed: line  VIOLATION property=<id> replay=<path>
exit 2  UNDECIDED: tool limit, lost anchor, scratch copy does not build (never an alarm)
"""
import argparse
import fcntl
import hashlib
import json
import os
import re
import shutil
import subprocess
import sys
import time

VERIF = os.path.dirname(os.path.dirname(os.path.abspath(__file__)))
REPO = os.environ.get("VERIF_REPO", "/repo")
SCRATCH = os.environ.get("VERIF_SCRATCH", "/var/tmp/scpi-verif")
KDIR = os.path.join(VERIF, "contracts", "kani")
VDIR = os.path.join(VERIF, "contracts", "verus")
ENV = dict(os.environ, CARGO_NET_OFFLINE="true", CARGO_TERM_COLOR="never")


class Undecided(Exception):
    pass


def log(*a):
    print(*a, flush=True)


def _watch_memory(sid, cap_kb, stop):
    """Kill solver processes of session `sid` whose resident set exceeds `cap_kb`."""
    while not stop.wait(5.0):
        try:
            out = subprocess.run(["ps", "-eo", "pid,sid,rss,comm"], stdout=subprocess.PIPE, text=True).stdout
        except Exception:
            continue
        for line in out.split("\n")[1:]:
            f = line.split()
            if len(f) >= 4 and f[3].startswith(("cbmc", "goto-", "kissat", "cadical", "z3")):
                try:
                    if int(f[1]) == sid and int(f[2]) > cap_kb:
                        os.kill(int(f[0]), 9)
                except (ValueError, ProcessLookupError):
                    pass


def run(cmd, cwd=None, timeout=None, env=None, logfile=None, mem_cap_kb=None):
    """Run a command in its own process group; on timeout the whole group (cargo, kani-driver,
    cbmc, solvers) is killed.  With `logfile` the output is streamed there (readable while the
    command runs)."""
    import signal
    t0 = time.time()
    if logfile:
        fh = open(logfile, "w")
        p = subprocess.Popen(cmd, cwd=cwd, env=env or ENV, stdout=fh, stderr=subprocess.STDOUT,
                             start_new_session=True)
        stop = None
        if mem_cap_kb:
            import threading
            stop = threading.Event()
            threading.Thread(target=_watch_memory, args=(p.pid, mem_cap_kb, stop), daemon=True).start()
        try:
            p.wait(timeout=timeout)
            rc, extra = p.returncode, ""
        except subprocess.TimeoutExpired:
            try:
                os.killpg(p.pid, signal.SIGKILL)
            except ProcessLookupError:
                pass
            p.wait()
            rc, extra = -9, "\n<<TIMEOUT>>"
        if stop:
            stop.set()
        fh.close()
        out = open(logfile, errors="replace").read() + extra
        return rc, out, time.time() - t0
    p = subprocess.Popen(cmd, cwd=cwd, env=env or ENV, stdout=subprocess.PIPE, stderr=subprocess.STDOUT,
                         text=True, errors="replace", start_new_session=True)
    try:
        out, _ = p.communicate(timeout=timeout)
        return p.returncode, out, time.time() - t0
    except subprocess.TimeoutExpired:
        try:
            os.killpg(p.pid, signal.SIGKILL)
        except ProcessLookupError:
            pass
        out, _ = p.communicate()
        return -9, (out or "") + "\n<<TIMEOUT>>", time.time() - t0


# ---------------------------------------------------------------------------------------
# scratch copy + injection
# ---------------------------------------------------------------------------------------

def make_scratch(pid):
    ws = os.path.join(SCRATCH, "ws-" + pid)
    os.makedirs(SCRATCH, exist_ok=True)
    rc, out, _ = run(["rsync", "-a", "--delete", "--exclude", "/target", "--exclude", ".git",
                      REPO + "/", ws + "/"])
    if rc != 0:
        raise Undecided("rsync of /repo failed: " + out[-400:])
    # Cargo.lock so that nothing is resolved online
    return ws


def find_fn_line(lines, spec):
    """Locate the unique line holding `anchor` (a literal substring), optionally inside the
    first brace-matched block that starts on a line containing `within`."""
    lo, hi = 0, len(lines)
    if spec.get("within"):
        starts = [i for i, l in enumerate(lines) if spec["within"] in l]
        if len(starts) != 1:
            raise Undecided("anchor lost: block %r found %d times in %s" %
                            (spec["within"], len(starts), spec["file"]))
        lo = starts[0]
        depth = 0
        seen = False
        hi = len(lines)
        for i in range(lo, len(lines)):
            depth += lines[i].count("{") - lines[i].count("}")
            if "{" in lines[i]:
                seen = True
            if seen and depth <= 0:
                hi = i + 1
                break
    hits = [i for i in range(lo, hi) if spec["anchor"] in lines[i]]
    if len(hits) != 1:
        raise Undecided("anchor lost: %r found %d times in %s" % (spec["anchor"], len(hits), spec["file"]))
    return hits[0]


def inject(ws, pid, cfg, tier):
    """Append the cfg(kani) module line to the crate roots and insert contract attributes
    above the listed function signatures.  Existing lines are never altered."""
    injected = []
    crates = sorted({g["crate"] for g in cfg["groups"] if g["engine"] == "kani"})
    for g in cfg["groups"]:
        g.setdefault("modules", [])
    # all groups of one crate are compiled with the same module set, hence the same features
    for crate in crates:
        feats = []
        for g in cfg["groups"]:
            if g["engine"] == "kani" and g["crate"] == crate and g.get("features"):
                for f in g["features"].split(","):
                    if f not in feats:
                        feats.append(f)
        for g in cfg["groups"]:
            if g["engine"] == "kani" and g["crate"] == crate and feats:
                g["features"] = ",".join(feats)
    for crate in crates:
        mods = ["spec", "vk"]
        for g in cfg["groups"]:
            if g["engine"] == "kani" and g["crate"] == crate:
                for m in g["modules"]:
                    if m not in mods:
                        mods.append(m)
        modfile = os.path.join(ws, "verif_mod_%s.rs" % crate.replace("-", "_"))
        with open(modfile, "w") as f:
            f.write("#![allow(dead_code, unused_imports, unused_variables, unused_mut, static_mut_refs)]\n")
            for m in mods:
                f.write('#[path = "%s/%s.rs"] pub mod %s;\n' % (KDIR, m, m))
            f.write('#[cfg(all(test, verif_playback))] #[path = "%s/pb_%s.rs"] mod pb;\n' % (ws, crate.replace("-", "_")))
        lib = os.path.join(ws, crate, "src", "lib.rs")
        with open(lib, "a") as f:
            if crate == "scpi":
                f.write('\n#[cfg(kani)] extern crate self as scpi;')
                for rel, hookfile in (("scpi/src/parser/response/mod.rs", "hook_response.rs"),
                                      ("scpi/src/parser/tokenizer/mod.rs", "hook_tokenizer.rs")):
                    hook = os.path.join(ws, rel)
                    if os.path.exists(hook):
                        with open(hook, "a") as hf:
                            hf.write('\n#[cfg(kani)] #[path = "%s/%s"] pub mod verif_hook;\n' % (KDIR, hookfile))
            f.write('\n#[cfg(kani)] #[path = "%s"] pub mod verif_contracts;\n' % modfile)
    inj_path = os.path.join(KDIR, "inject.json")
    wanted = set()
    for g in cfg["groups"]:
        for k in g.get("inject", []):
            wanted.add(k)
    if wanted:
        table = json.load(open(inj_path))
        byfile = {}
        for key in sorted(wanted):
            if key not in table:
                raise Undecided("inject.json has no entry %r" % key)
            byfile.setdefault(table[key]["file"], []).append((key, table[key]))
        for rel, items in byfile.items():
            path = os.path.join(ws, rel)
            if not os.path.exists(path):
                raise Undecided("anchor lost: file %s is gone" % rel)
            lines = open(path).read().split("\n")
            places = []
            for key, spec in items:
                i = find_fn_line(lines, spec)
                # climb over existing attributes / doc comments directly above the signature
                j = i
                while j > 0 and lines[j - 1].strip().startswith(("#[", "///")):
                    j -= 1
                places.append((i, key, spec))
            for i, key, spec in sorted(places, reverse=True):
                indent = re.match(r"\s*", lines[i]).group(0)
                attrs = [indent + "#[cfg_attr(kani, %s)]" % a for a in spec["attrs"]]
                lines[i:i] = attrs
                injected.append({"function": key, "file": rel, "attributes": spec["attrs"]})
            open(path, "w").write("\n".join(lines))
    return injected


# ---------------------------------------------------------------------------------------
# Kani
# ---------------------------------------------------------------------------------------

HARNESS_RE = re.compile(r"Checking harness ([\w:]+)\.\.\.")


def parse_kani(out):
    """Split terse -j output into per-harness records.  Each worker prints
    `Thread N: Checking harness X...` when it starts and `Thread N: <result block>` when done."""
    recs = {}
    cur = {}
    blocks = []  # (harness full name, text)
    tid = None
    buf = []
    for line in out.split("\n"):
        m = re.match(r"^Thread (\d+): ?(.*)$", line)
        if m or line.startswith(("Manual Harness Summary", "Complete - ")):
            if tid is not None and buf and tid in cur:
                blocks.append((cur[tid], "\n".join(buf)))
            buf = []
            tid = None
            if m:
                h = HARNESS_RE.search(m.group(2))
                if h:
                    cur[m.group(1)] = h.group(1)
                else:
                    tid = m.group(1)
                    buf = [m.group(2)]
            continue
        m2 = HARNESS_RE.search(line)
        if m2 and not line.startswith("Thread"):
            # single-threaded output
            if tid is not None and buf and tid in cur:
                blocks.append((cur[tid], "\n".join(buf)))
            cur["0"] = m2.group(1)
            tid = "0"
            buf = []
            continue
        if tid is not None:
            buf.append(line)
    if tid is not None and buf and tid in cur:
        blocks.append((cur[tid], "\n".join(buf)))
    for full, body in blocks:
        name = "::".join(full.split("::")[-2:])
        r = {"harness": name, "full": full}
        m = re.search(r"\*\* (\d+) of (\d+) failed", body)
        if m:
            r["failed"], r["checks"] = int(m.group(1)), int(m.group(2))
        m = re.search(r"\*\* (\d+) of (\d+) cover properties satisfied", body)
        if m:
            r["covers_sat"], r["covers"] = int(m.group(1)), int(m.group(2))
        m = re.search(r"VERIFICATION:- (\w+)", body)
        r["status"] = m.group(1) if m else "UNKNOWN"
        m = re.search(r"Verification Time: ([\d.]+)s", body)
        r["time_s"] = float(m.group(1)) if m else None
        r["failed_checks"] = re.findall(r'Failed Checks: (.*?)\n\s*File: "([^"]*)", line (\d+)', body)
        r["raw"] = body[-3000:]
        if name in recs and recs[name].get("status") != "UNKNOWN":
            continue
        recs[name] = r
    return recs


def kani_cmd(group, harnesses, jobs, extra=()):
    cmd = ["cargo", "kani", "-p", group["crate"], "-Z", "function-contracts", "-Z", "stubbing"]
    if group.get("features"):
        cmd += ["--features", group["features"]]
    if group.get("no_default_features"):
        cmd += ["--no-default-features"]
    cmd += ["-Z", "unstable-options", "--harness-timeout", "%ds" % group.get("harness_timeout", 900)]
    for z in group.get("zflags", []):
        cmd += ["-Z", z]
    for a in group.get("kani_args", []):
        cmd.append(a)
    for h in harnesses:
        cmd += ["--harness", "verif_contracts::" + h]
    cmd += list(extra)
    return cmd



def tree_hash(ws, group, cfg_inject):
    """Content hash of everything a harness result depends on: the scratch copy's sources and
    manifests (after injection), the contract modules, and the tool versions."""
    h = hashlib.sha256()
    h.update(b"kani-0.68.0/cbmc-6.11/vcheck-cache-v1")
    paths = []
    for root in ("scpi/src", "scpi-derive/src", "scpi-contrib/src"):
        for dp, dn, fn in os.walk(os.path.join(ws, root)):
            for f in fn:
                paths.append(os.path.join(dp, f))
    for f in ("Cargo.toml", "Cargo.lock", "scpi/Cargo.toml", "scpi-derive/Cargo.toml", "scpi-contrib/Cargo.toml"):
        paths.append(os.path.join(ws, f))
    for m in ["spec", "vk", "hook_response", "hook_tokenizer"] + group["modules"]:
        paths.append(os.path.join(KDIR, m + ".rs"))
    for pth in sorted(set(paths)):
        if os.path.exists(pth):
            h.update(pth.replace(ws, "").encode())
            h.update(open(pth, "rb").read().replace(ws.encode(), b"<WS>"))
    h.update(json.dumps({k: group.get(k) for k in ("crate", "features", "kani_args", "zflags", "harness_timeout")}, sort_keys=True).encode())
    return h.hexdigest()


def cache_dir():
    d = os.path.join(SCRATCH, "result-cache")
    os.makedirs(d, exist_ok=True)
    return d

def target_dir():
    return os.path.join(SCRATCH, "target")


def run_kani_group(ws, group, harnesses, jobs, timeout, logfile=None):
    env = dict(ENV, CARGO_TARGET_DIR=target_dir())

    cmd = kani_cmd(group, harnesses, jobs, ["-j", str(jobs), "--output-format", "terse", "--exact"])
    # resident-memory cap per solver process (DESIGN 3.5): a watchdog kills a cbmc that grows
    # beyond the cap, which ends as UNDECIDED for that harness instead of an OOM kill of others
    rc, out, wall = run(cmd, cwd=ws, timeout=timeout, env=env, logfile=logfile,
                        mem_cap_kb=int(group.get("mem_gb", 22)) * 1024 * 1024)
    return cmd, rc, out, wall



def lib_section(out):
    """Output of the crate's own unit-test binary (playback tests live there); integration
    and doc test binaries that cargo also starts are ignored."""
    m = re.search(r"Running unittests src/lib\.rs.*?(?=\n\s+Running |\n\s+Doc-tests |\Z)", out, flags=re.S)
    return m.group(0) if m else out

def playback(ws, group, harness_rec, pid):
    """Re-run one failing harness with concrete playback, then execute the generated unit
    test natively (cargo kani playback) against the real code of the scratch copy."""
    env = dict(ENV, CARGO_TARGET_DIR=target_dir())
    name = harness_rec["harness"]
    cmd = kani_cmd(group, [name], 1, ["-Z", "concrete-playback", "--concrete-playback=print", "--exact"])
    rc, out, wall = run(cmd, cwd=ws, timeout=1800, env=env)
    tests = re.findall(r"```\n(.*?)```", out, flags=re.S)
    chosen = []
    for t in tests:
        if "Check for `cover`" in t:
            continue
        chosen.append(t)
    res = {"playback_cmd": " ".join(cmd), "tests": chosen, "native": None}
    if not chosen:
        # a harness without symbolic input IS its own witness: call it directly
        fn = name.split("::")[-1]
        chosen = ["#[test]\nfn kani_concrete_playback_direct_%s() {\n    %s();\n}\n" % (fn, fn)]
        res["tests"] = chosen
        res["direct_call"] = True
    crate_mod = group["crate"].replace("-", "_")
    pbfile = os.path.join(ws, "pb_%s.rs" % crate_mod)
    module = harness_rec["full"].split("::")[-2]
    with open(pbfile, "w") as f:
        f.write("extern crate std; use std::vec; use std::vec::Vec;\nuse super::%s::*;\n" % module)
        for t in chosen[:4]:
            f.write(t + "\n")
    penv = dict(env)
    penv["RUSTFLAGS"] = (penv.get("RUSTFLAGS", "") + " --cfg verif_playback").strip()
    pcmd = ["cargo", "kani", "playback", "-Z", "concrete-playback", "-p", group["crate"]]
    if group.get("features"):
        pcmd += ["--features", group["features"]]
    pcmd += ["--", "kani_concrete_playback", "--test-threads", "1"]
    penv["RUST_BACKTRACE"] = "0"
    # native playback builds share one target directory: one at a time
    penv["CARGO_TARGET_DIR"] = os.path.join(SCRATCH, "target-playback")
    with open(os.path.join(SCRATCH, "lock-playback"), "w") as lk:
        fcntl.flock(lk, fcntl.LOCK_EX)
        rc2, out2, _ = run(pcmd, cwd=ws, timeout=1800, env=penv)
    res["native_cmd"] = " ".join(pcmd)
    out2 = lib_section(out2)
    panics = re.findall(r"panicked at ([^\n]*):\n([^\n]*)", out2)
    res["native_output"] = out2[-2500:]
    if re.search(r"test result: FAILED", out2) and panics:
        res["native"] = "reproduced"
        res["native_panics"] = [{"at": a, "message": m} for a, m in panics]
    elif re.search(r"test result: ok", out2):
        res["native"] = "not-reproduced"
    else:
        res["native"] = "playback-build-failed"
    # concrete values, decoded
    vals = re.findall(r"//\s*(.*?)\n\s*vec!\[([\d, ]*)\]", "\n".join(chosen))
    res["concrete_values"] = [{"value": v.strip(), "bytes": b.strip()} for v, b in vals][:64]
    return res


# ---------------------------------------------------------------------------------------
# Verus
# ---------------------------------------------------------------------------------------

def run_verus_group(ws, group, workdir):
    sys.path.insert(0, os.path.join(VERIF, "tools"))
    import vextract
    try:
        src, report = vextract.build(ws, os.path.join(VDIR, group["spec"]), VDIR)
    except vextract.Lost as e:
        raise Undecided("verus extraction: %s" % e)
    f = os.path.join(workdir, group["name"] + ".rs")
    open(f, "w").write(src)
    cmd = ["verus", f, "--output-json", "--time", "--crate-type", "lib"] + group.get("verus_args", [])
    rc, out, wall = run(cmd, cwd=workdir, timeout=group.get("timeout", 900))
    jtxt = out[out.find("{"):] if "{" in out else ""
    data = None
    # output-json prints one JSON object on stdout; diagnostics precede it on stderr
    dec = json.JSONDecoder()
    pos = 0
    while True:
        pos = out.find("{", pos)
        if pos < 0:
            break
        try:
            obj, end = dec.raw_decode(out[pos:])
            if isinstance(obj, dict) and ("verification-results" in obj or "times-ms" in obj):
                data = obj
                break
            pos += 1
        except ValueError:
            pos += 1
    return {"cmd": cmd, "rc": rc, "out": out, "wall": wall, "json": data, "report": report, "file": f}


# ---------------------------------------------------------------------------------------
# main
# ---------------------------------------------------------------------------------------


def group_harnesses(g, tier):
    hs = list(g["harnesses"].get("quick", []))
    if tier == "thorough":
        hs += [h for h in g["harnesses"].get("thorough", []) if h not in hs]
    return hs


def run_all_kani(cfg, tier, ws, workdir, args):
    """One `cargo kani` invocation per (crate, features) for ALL groups of the property (their
    harnesses then run in parallel); results are attributed back to the groups.  SUCCESSFUL
    results are reused from the content-addressed cache (VERIF_CACHE=0 disables)."""
    use_cache = os.environ.get("VERIF_CACHE", "1") != "0" and not args.patch
    batches = {}
    for g in cfg["groups"]:
        if g["engine"] != "kani" or (args.only and g["name"] != args.only):
            continue
        key = (g["crate"], g.get("features", ""), tuple(g.get("zflags", [])), tuple(g.get("kani_args", [])))
        batches.setdefault(key, []).append(g)
    results = {}
    for key, groups in batches.items():
        recs_all = {}
        todo = []
        hashes = {}
        htimeout = 0
        timeout = 0
        for g in groups:
            th = tree_hash(ws, g, None)
            tt = g.get("timeout", {}).get(tier, 1500 if tier == "quick" else 7200) \
                if isinstance(g.get("timeout"), dict) else g.get("timeout", 1500 if tier == "quick" else 7200)
            timeout = max(timeout, tt)
            htimeout = max(htimeout, g.get("harness_timeout", 900))
            for h in group_harnesses(g, tier):
                hashes.setdefault(h, th)
                if h in recs_all or h in todo:
                    continue
                cf = os.path.join(cache_dir(), hashlib.sha256((th + h).encode()).hexdigest() + ".json")
                if use_cache and os.path.exists(cf):
                    try:
                        r = json.load(open(cf))
                        r["cached"] = True
                        recs_all[h] = r
                        continue
                    except ValueError:
                        pass
                todo.append(h)
        out, wall, rc = "", 0.0, 0
        g0 = dict(groups[0])
        g0["harness_timeout"] = htimeout
        if todo:
            logname = os.path.join(workdir, "kani-%s.log" % key[0])
            cmd, rc, out, wall = run_kani_group(ws, g0, todo, args.jobs, timeout, logname)
            cmdtxt = " ".join(cmd)
            recs = parse_kani(out)
            for h in todo:
                r = recs.get(h)
                if r:
                    recs_all[h] = r
                    if r.get("status") == "SUCCESSFUL" and r.get("failed", 1) == 0 and r.get("covers", 0) == r.get("covers_sat", 0):
                        cf = os.path.join(cache_dir(), hashlib.sha256((hashes[h] + h).encode()).hexdigest() + ".json")
                        json.dump({k: r.get(k) for k in ("harness", "full", "checks", "failed", "covers", "covers_sat", "status", "time_s", "failed_checks", "raw")}, open(cf, "w"))
        else:
            cmdtxt = " ".join(kani_cmd(g0, [h for g in groups for h in group_harnesses(g, tier)], args.jobs)) + "   # every result reused from the content-addressed cache"
        for g in groups:
            hs = group_harnesses(g, tier)
            results[g["name"]] = (cmdtxt, rc, out, wall, {h: recs_all[h] for h in hs if h in recs_all}, timeout)
    return results

def load_known():
    known, fixed = [], []
    p = os.path.join(VERIF, "known_findings.txt")
    if os.path.exists(p):
        for line in open(p):
            line = line.strip()
            if not line or line.startswith("#"):
                continue
            if line.startswith("fixed:"):
                fixed.append(line)
            elif line.startswith("known:"):
                m = re.match(r"known:\s*property=(\S+)\s+obligation=(\S+)\s+(.*)", line)
                if m:
                    known.append({"property": m.group(1), "obligation": m.group(2), "what": m.group(3)})
    return known, fixed


def write_json(path, obj):
    os.makedirs(os.path.dirname(path), exist_ok=True)
    tmp = path + ".tmp"
    json.dump(obj, open(tmp, "w"), indent=1)
    os.replace(tmp, path)


def scan_assumptions(cfg):
    """Mechanical scan of the contract text for anything that is assumed rather than proved."""
    hits = []
    files = set()
    for g in cfg["groups"]:
        if g["engine"] == "kani":
            for m in ["spec", "vk"] + g["modules"]:
                files.add(os.path.join(KDIR, m + ".rs"))
        elif g["engine"] == "verus":
            files.add(os.path.join(VDIR, g["spec"]))
            for extra in ("prelude", "lemmas"):
                try:
                    files.add(os.path.join(VDIR, json.load(open(os.path.join(VDIR, g["spec"])))[extra]))
                except Exception:
                    pass
    pats = [("kani::assume (harness preconditions)", r"kani::assume\("),
            ("kani::stub (callee replaced by contract stub)", r"#\[kani::stub\("),
            ("verus assume/admit", r"(?<![:\w])assume\(|\badmit\("),
            ("verus external_body (trusted)", r"external_body"),
            ("verus assume_specification", r"assume_specification"),
            ("unsafe blocks in contract code", r"\bunsafe\b")]
    for f in sorted(files):
        if not os.path.exists(f):
            continue
        txt = open(f).read()
        for label, p in pats:
            n = len(re.findall(p, txt))
            if n:
                hits.append("%s: %d x %s" % (os.path.relpath(f, VERIF), n, label))
    return hits


def main():
    ap = argparse.ArgumentParser()
    ap.add_argument("pid")
    ap.add_argument("--tier", default=os.environ.get("VERIF_TIER", "quick"))
    ap.add_argument("--replay")
    ap.add_argument("--keep", action="store_true")
    ap.add_argument("--only")
    ap.add_argument("--patch", help="development aid: apply this diff to the SCRATCH copy only (never to /repo)")
    ap.add_argument("--jobs", type=int, default=int(os.environ.get("VERIF_JOBS", "16")))
    args = ap.parse_args()
    pid = args.pid
    tier = args.tier if args.tier in ("quick", "thorough") else "quick"
    seed = int(os.environ.get("VERIF_SEED", "0") or 0)
    index = json.load(open(os.path.join(VERIF, "contracts", "index.json")))
    if pid not in index:
        log("UNDECIDED: no contract set for", pid)
        return 2
    cfg = index[pid]
    t0 = time.time()
    os.makedirs(SCRATCH, exist_ok=True)
    lock = open(os.path.join(SCRATCH, "lock-" + pid), "w")
    fcntl.flock(lock, fcntl.LOCK_EX)
    ws = None
    try:
        if args.replay:
            return do_replay(pid, cfg, args)
        ws = make_scratch(pid)
        if args.patch:
            rc, out, _ = run(["patch", "-p1", "-s", "-d", ws, "-i", os.path.abspath(args.patch)])
            if rc != 0:
                raise Undecided("patch does not apply: " + out[-300:])
            log("NOTE: scratch copy patched with %s (evidence of this run is not about /repo)" % args.patch)
        injected = inject(ws, pid, cfg, tier)
        return do_check(pid, cfg, tier, seed, ws, injected, args, t0)
    except Undecided as e:
        log("UNDECIDED property=%s reason=%s" % (pid, e))
        return 2
    finally:
        if ws and not args.keep:
            shutil.rmtree(ws, ignore_errors=True)
            shutil.rmtree(os.path.join(SCRATCH, "work-" + pid), ignore_errors=True)


def do_replay(pid, cfg, args):
    """Replay a stored counterexample natively against the current /repo."""
    rp = json.load(open(args.replay))
    if not rp.get("playback_tests"):
        log("replay file carries no concrete input (%s); verifier output follows" % rp.get("native"))
        log(rp.get("verifier_output", "")[-2000:])
        return 1
    ws = make_scratch(pid)
    try:
        inject(ws, pid, cfg, "quick")
        group = [g for g in cfg["groups"] if g["name"] == rp["group"]][0]
        crate_mod = group["crate"].replace("-", "_")
        with open(os.path.join(ws, "pb_%s.rs" % crate_mod), "w") as f:
            f.write("extern crate std; use std::vec; use std::vec::Vec;\nuse super::%s::*;\n" % rp["module"])
            for t in rp["playback_tests"]:
                f.write(t + "\n")
        env = dict(ENV, CARGO_TARGET_DIR=os.path.join(SCRATCH, "target-playback"), RUST_BACKTRACE="0")
        env["RUSTFLAGS"] = (env.get("RUSTFLAGS", "") + " --cfg verif_playback").strip()
        pcmd = ["cargo", "kani", "playback", "-Z", "concrete-playback", "-p", group["crate"]]
        if group.get("features"):
            pcmd += ["--features", group["features"]]
        pcmd += ["--", "kani_concrete_playback", "--test-threads", "1"]
        rc, out, _ = run(pcmd, cwd=ws, timeout=1800, env=env)
        out = lib_section(out)
        log(out[-3000:])
        if "test result: FAILED" in out:
            log("REPLAY: reproduced natively on the current tree")
            return 1
        if "test result: ok" in out:
            log("REPLAY: does not reproduce on the current tree")
            return 0
        return 2
    finally:
        if not args.keep:
            shutil.rmtree(ws, ignore_errors=True)


def do_check(pid, cfg, tier, seed, ws, injected, args, t0):
    known, fixed = load_known()
    workdir = os.path.join(SCRATCH, "work-" + pid)
    os.makedirs(workdir, exist_ok=True)
    obligations = 0
    discharged = 0
    proof_obl = 0
    proof_dis = 0
    bounded_obl = 0
    bounded_dis = 0
    named = set()
    failures = []      # (group, harness_rec, obligation text)
    undecided = []
    group_reports = []
    cmds = []
    solver_time = 0.0
    functions = []
    kani_results = run_all_kani(cfg, tier, ws, workdir, args)
    for g in cfg["groups"]:
        if args.only and g["name"] != args.only:
            continue
        functions += g.get("functions", [])
        if g["engine"] == "kani":
            hs = list(g["harnesses"].get("quick", []))
            if tier == "thorough":
                hs += [h for h in g["harnesses"].get("thorough", []) if h not in hs]
            if not hs:
                continue
            cmd, rc, out, wall, recs, timeout = kani_results[g["name"]]
            cmds.append(cmd)
            rep = {"group": g["name"], "engine": "kani/cbmc", "bounded": bool(g.get("bounded")),
                   "bounds": g.get("bounds", "none (loop-free full-domain, or unrolled to a width fixed by the standard with unwinding assertions)"),
                   "wall_s": round(wall, 1), "harnesses": []}
            if "<<TIMEOUT>>" in out:
                undecided.append("%s: wall-clock limit %ss hit" % (g["name"], timeout))
            if re.search(r"error(\[E\d+\])?: ", out) and not recs:
                undecided.append("%s: scratch copy does not build under kani: %s" %
                                 (g["name"], "; ".join(re.findall(r"error(?:\[E\d+\])?: [^\n]*", out)[:3])))
            for h in hs:
                r = recs.get(h)
                if r is None:
                    if not undecided:
                        undecided.append("%s: harness %s produced no result" % (g["name"], h))
                    continue
                n = r.get("checks", 0)
                f = r.get("failed", 0)
                if n == 0:
                    undecided.append("%s: harness %s generated zero obligations (vacuous)" % (g["name"], h))
                if r.get("covers", 0) != r.get("covers_sat", 0):
                    undecided.append("%s: harness %s: %d of %d reachability covers unsatisfied (vacuity guard)" %
                                     (g["name"], h, r["covers"] - r["covers_sat"], r["covers"]))
                obligations += n
                discharged += n - f
                if g.get("bounded"):
                    bounded_obl += n
                    bounded_dis += n - f
                else:
                    proof_obl += n
                    proof_dis += n - f
                solver_time += r.get("time_s") or 0
                rep["harnesses"].append({k: r.get(k) for k in ("harness", "checks", "failed", "covers", "covers_sat", "status", "time_s", "cached")})
                if r["status"] == "FAILED" and f > 0:
                    for desc, file, line in r["failed_checks"]:
                        failures.append((g, r, desc.strip().strip('"'), "%s:%s" % (file, line)))
                    if not r["failed_checks"]:
                        failures.append((g, r, "unnamed-check", ""))
                elif r["status"] != "SUCCESSFUL":
                    undecided.append("%s: harness %s status %s: %s" % (g["name"], h, r["status"], r["raw"][-300:].replace("\n", " | ")))
            group_reports.append(rep)
        elif g["engine"] == "static":
            env = dict(ENV, CARGO_TARGET_DIR=os.path.join(SCRATCH, "target-static"))
            rc, out, wall = run(["sh", "-c", g["cmd"]], cwd=ws, timeout=1200, env=env)
            cmds.append(g["cmd"])
            open(os.path.join(workdir, g["name"] + ".log"), "w").write(out)
            group_reports.append({"group": g["name"], "engine": "static build obligation (not a deductive proof)", "bounded": False,
                                  "bounds": "n/a", "wall_s": round(wall, 1), "rc": rc})
            static_ok = rc == 0
            if not static_ok:
                failures.append((g, {"harness": g["name"], "full": "static::" + g["name"], "raw": out[-3000:], "verus": True},
                                 "%s/%s/static-obligation-failed" % (pid, g["name"]), g["cmd"]))
        elif g["engine"] == "verus":
            v = run_verus_group(ws, g, workdir)
            cmds.append(" ".join(v["cmd"]))
            open(os.path.join(workdir, g["name"] + ".log"), "w").write(v["out"])
            j = v["json"] or {}
            vr = j.get("verification-results", {})
            nver = vr.get("verified", 0)
            nerr = vr.get("errors", 0)
            rep = {"group": g["name"], "engine": "verus/z3", "bounded": False, "bounds": "none",
                   "wall_s": round(v["wall"], 1), "verified_functions": nver, "errors": nerr,
                   "extraction": v["report"],
                   "smt_time_ms": (j.get("times-ms", {}).get("smt", {}) or {}).get("total")}
            group_reports.append(rep)
            if not j or "verification-results" not in j:
                undecided.append("%s: verus produced no result: %s" % (g["name"], v["out"][-600:].replace("\n", " | ")))
                continue
            if not vr.get("encountered-vir-error", False) and nver + nerr == 0:
                undecided.append("%s: verus verified zero functions (vacuous)" % g["name"])
            expect = g.get("min_verified", 1)
            obligations += nver + nerr
            proof_obl += nver + nerr
            discharged += nver
            proof_dis += nver
            solver_time += (j.get("times-ms", {}).get("total", 0) or 0) / 1000.0
            if vr.get("encountered-vir-error") or (nerr == 0 and vr.get("success") is False):
                undecided.append("%s: verus rejected the extracted text (unsupported construct?): %s" %
                                 (g["name"], "; ".join(re.findall(r"error: [^\n]*", v["out"])[:4])))
            elif nerr > 0:
                import vextract as _vx
                flist = _vx.failures_from_json(j, v["out"]) or _vx.failed_functions(v["out"], open(v["file"]).read())
                for fn, msg in flist:
                    failures.append((g, {"harness": fn.replace("::", "."), "full": "verus::" + fn, "raw": v["out"][-3000:], "verus": True},
                                     "%s/%s/%s" % (pid, fn, msg), v["file"]))
                if not flist:
                    failures.append((g, {"harness": "verus", "full": "verus", "raw": v["out"][-3000:], "verus": True},
                                     "%s/verus/unlocated-error" % pid, v["file"]))
            elif nver < expect:
                undecided.append("%s: verus verified %d functions, contract set lists %d" % (g["name"], nver, expect))
    # ------------------------------------------------------------------ decide
    violations = []
    known_hits = []
    seen_obl = set()
    for g, r, desc, where in failures:
        key = (r["harness"], desc)
        if key in seen_obl:
            continue
        seen_obl.add(key)
        k = [x for x in known if x["property"] == pid and (x["obligation"] == desc or x["obligation"] == r["harness"] + ":" + desc)]
        if k:
            known_hits.append((k[0], r, desc))
        else:
            violations.append((g, r, desc, where))
    # stale known findings: listed but the witness clause now passes
    ran = {h["harness"] for rep in group_reports for h in rep.get("harnesses", [])}
    for x in known:
        if x["property"] != pid:
            continue
        if not any(kh[0] is x for kh in known_hits):
            hname = x["obligation"].split(":")[0] if ":" in x["obligation"] else None
            if hname is None or hname in ran:
                log("NOTE: known finding no longer observed (stale entry?): %s" % x["what"])
    for k, r, desc in known_hits:
        log("KNOWN-FINDING: property=%s %s" % (pid, k["what"]))

    replay_paths = []
    pb_cache = {}
    for g, r, desc, where in violations:
        obl = re.sub(r"[^A-Za-z0-9_.-]+", "_", desc)[:80]
        path = os.path.join(VERIF, "replays", "%s-%s-%s.json" % (pid, r["harness"].replace("::", "."), obl))
        rp = {"property": pid, "obligation": desc, "harness": r["harness"], "group": g["name"],
              "location": where, "verifier_output": r["raw"], "tier": tier}
        suffix = ""
        if r.get("verus"):
            rp["native"] = "verus gives no counterexample"
            suffix = " no-failing-input-found"
        else:
            rp["module"] = r["full"].split("::")[-2]
            if r["harness"] not in pb_cache and len(pb_cache) >= int(os.environ.get("VERIF_MAX_PLAYBACK", "3")):
                pb_cache[r["harness"]] = {"native": "playback-skipped (more than %s failing harnesses; the first ones are replayed)" % os.environ.get("VERIF_MAX_PLAYBACK", "3"), "tests": []}
            if r["harness"] not in pb_cache:
                try:
                    pb_cache[r["harness"]] = playback(ws, g, r, pid)
                except Exception as e:  # noqa
                    pb_cache[r["harness"]] = {"native": "playback-error: %s" % e, "tests": []}
            pb = pb_cache[r["harness"]]
            rp["native"] = pb["native"]
            rp["playback_tests"] = pb.get("tests", [])
            rp["concrete_values"] = pb.get("concrete_values")
            rp["native_panics"] = pb.get("native_panics")
            rp["native_output"] = pb.get("native_output")
            rp["replay_cmd"] = "./check %s --replay %s" % (pid, path)
            hit = any(desc in (p.get("message") or "") for p in (pb.get("native_panics") or []))
            if pb["native"] == "reproduced" and (hit or not desc.startswith(pid + "/")):
                rp["native_reproduces_obligation"] = True
            else:
                rp["native_reproduces_obligation"] = False
                suffix = " no-failing-input-found"
        write_json(path, rp)
        replay_paths.append(path)
        log("VIOLATION property=%s replay=%s obligation=%s%s" % (pid, path, desc.replace(" ", "_"), suffix))

    # ------------------------------------------------------------------ evidence
    wall = time.time() - t0
    bounded_any = any(rep["bounded"] for rep in group_reports)
    level = cfg.get("level", "proof")
    samples = []
    for g in cfg["groups"]:
        for s in g.get("samples", []):
            samples.append(s)
    named_obl = sorted(set(collect_named(cfg)))
    ev = {
        "property_id": pid, "tier": tier, "seed": seed, "level": level,
        "coverage": {
            # a proof-level claim counts only unbounded obligations; bounded stand-ins are listed apart
            "obligations": proof_obl if level == "proof" else obligations,
            "discharged": proof_dis if level == "proof" else discharged,
            "obligations_unbounded": proof_obl, "discharged_unbounded": proof_dis,
            "obligations_bounded": bounded_obl, "discharged_bounded": bounded_dis,
            "evaluations": max(obligations, 1), "distinct_nontrivial": len(named_obl),
            "rule": "evaluations = verification conditions reported by the back ends on this run (CBMC checks: contract assertions, overflow, bounds, pointer validity, unreachable!, unwinding assertions; Verus: functions verified). distinct_nontrivial = distinct named contract clauses 'Cxx/<function>/<clause>' in the contract modules that were run.",
            "checker_cmd": " && ".join(dict.fromkeys(cmds)) if cmds else "none",
            "trusted_base": cfg.get("trusted_base", []) + ["rustc/kani-compiler MIR->goto translation", "CBMC 6.11 + CaDiCaL/kissat", "Verus 0.2026.09.13 + Z3" if any(g["engine"] == "verus" for g in cfg["groups"]) else "—"],
            "samples": (samples + named_obl[:12])[:40] or ["none"],
            "functions_under_contract": sorted(set(functions)),
            "contract_attributes_injected": injected,
            "groups": group_reports,
            "bounded": bounded_any,
            "exhaustive": (not bounded_any) and not undecided and not violations,
            "solver_time_s": round(solver_time, 2),
            "harness_results_reused_from_cache": sum(1 for rep in group_reports for h in rep.get("harnesses", []) if h.get("cached")),
            "cache_note": "a harness result is reused only when the SHA-256 of all crate sources of the scratch copy (after injection), manifests and contract modules is identical to a run that ended SUCCESSFUL; set VERIF_CACHE=0 to force re-verification",
            "known_findings_observed": [k["what"] for k, _, _ in known_hits],
            "undecided": undecided,
            "explanation": cfg.get("explanation", ""),
        },
        "assumptions": cfg.get("assumptions", []) + scan_assumptions(cfg),
        "wall_s": round(wall, 1),
        "violations": len(violations),
    }
    if args.patch or args.only:
        # a development run (patched scratch copy, or a single group) is not the property's
        # evidence: keep it apart
        write_json(os.path.join(workdir, "evidence-partial-%s.json" % pid), ev)
    else:
        write_json(os.path.join(VERIF, "evidence", pid + ".json"), ev)
    log("SUMMARY property=%s tier=%s obligations=%d discharged=%d (unbounded %d/%d, bounded %d/%d) violations=%d known=%d undecided=%d wall=%.0fs" %
        (pid, tier, obligations, discharged, proof_dis, proof_obl, bounded_dis, bounded_obl, len(violations), len(known_hits), len(undecided), wall))
    if violations:
        return 1
    if undecided:
        for u in undecided:
            log("UNDECIDED property=%s reason=%s" % (pid, u))
        return 2
    if obligations == 0:
        # vacuity guard: a run that generated no obligation decided nothing
        log("UNDECIDED property=%s reason=no obligation was generated (vacuous run)" % pid)
        return 2
    return 0


def collect_named(cfg):
    out = []
    for g in cfg["groups"]:
        if g["engine"] == "static":
            out.append("static:" + g["cmd"])
            continue
        if g["engine"] != "kani":
            sp = os.path.join(VDIR, g["spec"])
            if os.path.exists(sp):
                out += ["verus:" + m for m in re.findall(r"^\[fn ([^\]]+)\]", open(sp).read(), flags=re.M)]
            continue
        for m in g["modules"]:
            p = os.path.join(KDIR, m + ".rs")
            if os.path.exists(p):
                out += re.findall(r'"(C\d\d/[^"]+)"', open(p).read())
    return out


if __name__ == "__main__":
    sys.exit(main())
