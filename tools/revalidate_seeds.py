#!/usr/bin/env python3
"""Re-confirm every seeded change against the CURRENT /repo HEAD in a scratch worktree:
patch applies, suite passes with it, demo fails with it and passes without it.
Writes seeded/<id>/revalidation.json."""
import json, os, re, subprocess, shutil, sys
V = os.path.dirname(os.path.dirname(os.path.abspath(__file__)))
WT = "/tmp/seedreval-wt"
ENV = dict(os.environ, CARGO_NET_OFFLINE="true", CARGO_TARGET_DIR=WT + "/target")
def sh(cmd, timeout=1800):
    p = subprocess.run(cmd, shell=True, cwd=WT, env=ENV, stdout=subprocess.PIPE, stderr=subprocess.STDOUT, text=True, timeout=timeout)
    return p.returncode, p.stdout
if not os.path.exists(WT):
    subprocess.run(["git", "-C", "/repo", "worktree", "add", "-q", "--detach", WT, "HEAD"], check=True)
head = subprocess.run(["git", "-C", "/repo", "log", "--format=%h", "-1"], stdout=subprocess.PIPE, text=True).stdout.strip()
for sd in (sys.argv[1:] or sorted(os.listdir(V + "/seeded"))):
    d = os.path.join(V, "seeded", sd)
    if not os.path.isdir(d):
        continue
    meta = json.load(open(d + "/meta.json"))
    sh("git checkout -q -- . && git clean -fdq -e target")
    res = {"repo_head": head}
    rc, out = sh("git apply --check %s/patch.diff" % d)
    res["applies"] = rc == 0
    if rc == 0:
        demo_path = meta["demo_path"]
        pkg = "scpi-contrib" if demo_path.startswith("scpi-contrib") else "scpi"
        m = re.search(r"--features[= ]([\w,/-]+)", meta.get("demo_cmd", ""))
        feats = ("--features " + m.group(1)) if m else ""
        democmd = "cargo test -p %s %s --test %s --offline" % (pkg, feats, os.path.basename(demo_path)[:-3])
        shutil.copy(d + "/demo.rs", os.path.join(WT, demo_path))
        rc, out = sh(democmd)
        res["demo_passes_without_change"] = rc == 0
        sh("git apply %s/patch.diff" % d)
        rc, out = sh(democmd)
        res["demo_fails_with_change"] = rc != 0 and ("test result: FAILED" in out or "panicked" in out)
        os.remove(os.path.join(WT, demo_path))
        rc, out = sh("cargo test --workspace --no-fail-fast --offline")
        res["suite_passes_with_change"] = rc == 0
    res["ok"] = all(res.get(k) for k in ("applies", "demo_passes_without_change", "demo_fails_with_change", "suite_passes_with_change"))
    json.dump(res, open(d + "/revalidation.json", "w"), indent=1)
    print(sd, "OK" if res["ok"] else "PROBLEM", res, flush=True)
sh("git checkout -q -- . && git clean -fdq -e target")
subprocess.run(["git", "-C", "/repo", "worktree", "remove", "--force", WT])
