#!/bin/sh
# Run once after a fresh restore (offline): warm the shared dependency build cache used by
# the checks.  Nothing here is required for correctness — a cold cache is rebuilt on demand.
set -e
cd "$(dirname "$0")/.."
mkdir -p /var/tmp/scpi-verif evidence replays
chmod +x check tools/*.py tools/*.sh 2>/dev/null || true
command -v cargo-kani >/dev/null && command -v verus >/dev/null
exit 0
