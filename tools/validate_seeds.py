#!/usr/bin/env python3
"""Confirm each candidate seeded change in a scratch worktree of /repo (never in /repo):
   patch applies; workspace builds and the existing suite passes with it; the demo fails with
   it and passes without it.  Writes <seed>/validation.json."""
import json, os, re, subprocess, sys, shutil, glob
SRC = sys.argv[1]            # e.g. /tmp/seedout
WT = "/tmp/seedval-wt"
ENV = dict(os.environ, CARGO_NET_OFFLINE="true", CARGO_TARGET_DIR=WT + "/target")

def sh(cmd, cwd=WT, timeout=1800):
    p = subprocess.run(cmd, shell=True, cwd=cwd, env=ENV, stdout=subprocess.PIPE, stderr=subprocess.STDOUT, text=True, timeout=timeout)
    return p.returncode, p.stdout

if not os.path.exists(WT):
    subprocess.run(["git", "-C", "/repo", "worktree", "add", "-q", "--detach", WT, "HEAD"], check=True)
only = sys.argv[2:] 
for d in sorted(glob.glob(SRC + "/C*/[0-9]")):
    pid = d.split("/")[-2]
    if only and pid not in only:
        continue
    if os.path.exists(d + "/validation.json"):
        continue
    meta = json.load(open(d + "/meta.json"))
    res = {"seed": d, "property": pid}
    sh("git checkout -q -- . && git clean -fdq -e target")
    rc, out = sh("git apply --check %s/patch.diff" % d)
    res["applies"] = rc == 0
    if rc != 0:
        res["error"] = out[-500:]
        json.dump(res, open(d + "/validation.json", "w"), indent=1); print(pid, d, res); continue
    demo_path = meta["demo_path"]
    pkg = "scpi-contrib" if demo_path.startswith("scpi-contrib") else "scpi"
    test = os.path.basename(demo_path)[:-3]
    feats = ""
    m = re.search(r"--features[= ]([\w,/-]+)", meta.get("demo_cmd", ""))
    if m:
        feats = "--features " + m.group(1)
    democmd = "cargo test -p %s %s --test %s --offline" % (pkg, feats, test)
    # 1. demo on the unmodified tree
    shutil.copy(d + "/demo.rs", os.path.join(WT, demo_path))
    rc, out = sh(democmd)
    res["demo_passes_without_change"] = rc == 0
    res["demo_clean_tail"] = out[-300:]
    # 2. with the change
    sh("git apply %s/patch.diff" % d)
    rc, out = sh(democmd)
    res["demo_fails_with_change"] = rc != 0 and ("test result: FAILED" in out or "panicked" in out)
    res["demo_seeded_tail"] = out[-600:]
    os.remove(os.path.join(WT, demo_path))
    rc, out = sh("cargo test --workspace --no-fail-fast --offline")
    res["suite_passes_with_change"] = rc == 0
    res["suite_tail"] = "\n".join(l for l in out.split("\n") if l.startswith("test result"))[-800:]
    res["demo_cmd"] = democmd
    res["ok"] = all(res.get(k) for k in ("applies", "demo_passes_without_change", "demo_fails_with_change", "suite_passes_with_change"))
    json.dump(res, open(d + "/validation.json", "w"), indent=1)
    print(pid, d, "OK" if res["ok"] else "REJECT", {k: res[k] for k in res if k.startswith(("demo_passes", "demo_fails", "suite_passes"))}, flush=True)
sh("git checkout -q -- . && git clean -fdq -e target")
