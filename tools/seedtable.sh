#!/bin/sh
# regenerate the seed table inside DESIGN.md
cd "$(dirname "$0")/.."
python3 tools/seedreport.py > /tmp/seedtable.md
python3 - <<'PY'
s=open('DESIGN.md').read()
t=open('/tmp/seedtable.md').read()
a=s.index('<!-- SEEDTABLE:BEGIN -->')+len('<!-- SEEDTABLE:BEGIN -->')
b=s.index('<!-- SEEDTABLE:END -->')
open('DESIGN.md','w').write(s[:a]+'\n'+t+'\n'+s[b:])
PY
