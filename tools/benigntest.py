#!/usr/bin/env python3
"""Run quick checks against behaviour-preserving refactorings (benign/Bnn.diff, written by an
independent sub-agent that saw nothing of /verif).  Every run must exit 0: a VIOLATION here is
a false alarm of the machinery, exit 2 (UNDECIDED: lost anchor, construct outside the
verifier's subset) is recorded but is not an alarm.
   usage: benigntest.py [Bnn ...]"""
import json, os, re, subprocess, sys, time
V = os.path.dirname(os.path.dirname(os.path.abspath(__file__)))
PLAN = {
    "B01": ["C04", "C01"], "B02": ["C03", "C04"], "B03": ["C04"], "B04": ["C12", "C13"],
    "B05": ["C09", "C10"], "B06": ["C05", "C02"], "B07": ["C15", "C16"], "B08": ["C06", "C07"],
    "B09": ["C19"], "B10": ["C20"],
}
out = os.path.join(V, "benign", "results.json")
res = json.load(open(out)) if os.path.exists(out) else {}
for b in (sys.argv[1:] or sorted(PLAN)):
    for p in PLAN[b]:
        t0 = time.time()
        r = subprocess.run([os.path.join(V, "check"), p, "--tier", "quick", "--patch", os.path.join(V, "benign", b + ".diff")],
                           stdout=subprocess.PIPE, stderr=subprocess.STDOUT, text=True)
        viol = re.findall(r"VIOLATION property=\S+ replay=\S+ obligation=(\S+)", r.stdout)
        und = re.findall(r"UNDECIDED property=\S+ reason=(.*)", r.stdout)
        res.setdefault(b, {})[p] = {"exit": r.returncode, "violations": viol[:8], "undecided": [u[:300] for u in und[:4]], "wall_s": round(time.time() - t0)}
        print(b, p, "exit", r.returncode, viol[:3], und[:2], flush=True)
        json.dump(res, open(out, "w"), indent=1)
